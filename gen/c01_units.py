"""C01 feature skeletons.  Each k_<kind>(u) fills u.lib / u.body of a c01_core.Unit and must define
`func U<uid>Run()` in u.body.  In body text `§X` refers to identifier X declared in u.lib and `¤X` to the
trace package (both are resolved when the unit is placed into packages).  See c01_core for the rules that
keep every unit determined by the language spec."""
from c01_core import INTS, BITS, STR_POOL, W, Fill, as_int, signed, tmax, tmin


def pick_t(u, wide=False):
    r = u.r
    if wide:
        return r.choice(["int", "int64", "uint64", "int32", "uint32", "uint"])
    return r.choice(INTS)


def c(u, t, lo=0, hi=9):
    """small constant of type t"""
    v = u.r.randint(lo, hi)
    if v < 0 and not signed(t):
        v = -v
    return "%s(%d)" % (t, v) if t != "int" else ("%d" % v if v >= 0 else "(%d)" % v)


def sc(u):
    return u.r.choice(STR_POOL)


def run_open(u):
    u.body.open("func %sRun() {" % u.P)


def mkfill(u, w, t1, t2=None, depth=2, fuel=60, budget=25):
    f = Fill(u, w, main_t=t1, depth=depth, fuel=fuel, stmts_budget=budget)
    f.kinds = [t1, t1, t2] if t2 and t2 != t1 else [t1]
    return f


def noise(f, n=2, d=None):
    """a few random statements from the filler"""
    f.stmts(n, d)


# =================================================================================================
# ctl: control flow over scalar variables (phi nodes, loops, switch/fallthrough, labels, goto)

def k_ctl(u):
    r = u.r
    t1, t2 = pick_t(u), pick_t(u)
    u.feat(t1, t2)
    in_lib = r.random() < 0.5
    w = u.lib if in_lib else u.body
    fn = u.nm("F")
    w.open("func %s(p0 %s, p1 %s, p2 bool, p3 string) (res %s) {" % (fn, t1, t2, t1))
    f = mkfill(u, w, t1, t2, depth=4, fuel=80, budget=45)
    for n, t in (("p0", t1), ("p1", t2), ("p2", "bool"), ("p3", "string"), ("res", t1)):
        f.add(n, t)
    f.fuel_decl()
    f.stmts(r.randint(5, 9))
    f.trace_vars(5)
    w("res += %s" % f.ie(t1, 2))
    w("return")
    w.close()
    b = u.body
    b()
    run_open(u)
    ref = ("§" if in_lib else "") + fn
    for i in range(r.randint(2, 4)):
        x = u.lv("x")
        b("%s := %s(%s, %s, %s, %s)" % (x, ref, c(u, t1, -3, 9), c(u, t2, -3, 40), r.choice(["true", "false"]), sc(u)))
        b(u.tr(as_int(x, t1)))
    b.close()


# =================================================================================================
# rng: every range form

def _slice_lit(u, t, n):
    return "[]%s{%s}" % (t, ", ".join(c(u, t, -5, 50) for _ in range(n)))


def rng_slice(u, w, f):
    r = u.r
    t = f.pick_kind()
    xs = u.lv("xs")
    n = r.randint(0, 5)
    w("%s := %s" % (xs, _slice_lit(u, t, n)))
    form = r.randrange(5)
    i, v = u.lv("i"), u.lv("e")
    u.feat("range-slice%d" % form)
    if form == 0:
        w.open("for %s, %s := range %s {" % (i, v, xs))
        w(u.tr(i, as_int(v, t)))
        if n > 0 and r.random() < 0.6:
            # writes during the loop are visible (the slice header is evaluated once, elements are read per iteration)
            w("%s[(%s+1)%%len(%s)] += %s" % (xs, i, xs, c(u, t, 1, 9)))
        if r.random() < 0.4:
            # append during the loop does not change the number of iterations
            w("%s = append(%s, %s)" % (xs, xs, v))
        w.close()
        w(u.tr("len(%s)" % xs))
    elif form == 1:
        w.open("for %s := range %s {" % (i, xs))
        w("%s[%s] *= %s" % (xs, i, c(u, t, 2, 3)))
        w.close()
        w.open("for _, %s := range %s {" % (v, xs))
        w(u.tr(as_int(v, t)))
        w.close()
    elif form == 2:
        k = u.lv("n")
        w("%s := 0" % k)
        w.open("for range %s {" % xs)
        w("%s++" % k)
        w.close()
        w(u.tr(k))
        w.open("for %s, %s := range %s[:%s/2] {" % (i, v, xs, k))
        w(u.tr(i, as_int(v, t)))
        w.close()
    elif form == 3:
        # range with assignment to existing operands: `i, a[i] = range` assigns a[old i]
        a = u.lv("a")
        w("var %s [8]%s" % (a, t))
        w("%s := 7" % i)
        w.open("for %s, %s[%s] = range %s {" % (i, a, i, xs))
        w(u.tr(i))
        w.close()
        w.open("for _, %s := range %s {" % (v, a))
        w(u.tr(as_int(v, t)))
        w.close()
        u.feat("range-assign-form")
    else:
        # nil slice and a sub-slice evaluated once
        nn = u.lv("nl")
        w("var %s []%s" % (nn, t))
        w.open("for %s := range %s {" % (i, nn))
        w(u.tr(i))
        w.close()
        w.open("for %s, %s := range %s {" % (i, v, xs))
        w("%s = %s[:0]" % (xs, xs))
        w(u.tr(i, as_int(v, t)))
        w.close()
        w(u.tr("len(%s)" % xs))


def rng_array(u, w, f):
    r = u.r
    t = f.pick_kind()
    n = r.randint(1, 4)
    arr = u.lv("arr")
    w("%s := [%d]%s{%s}" % (arr, n, t, ", ".join(c(u, t, -5, 50) for _ in range(n))))
    i, v = u.lv("i"), u.lv("e")
    form = r.randrange(4)
    u.feat("range-array%d" % form)
    if form == 0:
        # range over an array value iterates over a copy
        w.open("for %s, %s := range %s {" % (i, v, arr))
        if "rangearr" not in u.avoid:
            w("%s[(%s+1)%%%d] += %s" % (arr, i, n, c(u, t, 1, 9)))
            u.feat("range-array-write-during-loop")
        w(u.tr(i, as_int(v, t)))
        w.close()
    elif form == 1:
        # range over a pointer to array sees the writes
        w.open("for %s, %s := range &%s {" % (i, v, arr))
        w("%s[(%s+1)%%%d] += %s" % (arr, i, n, c(u, t, 1, 9)))
        w(u.tr(i, as_int(v, t)))
        w.close()
    elif form == 2:
        p = u.lv("np")
        w("var %s *[%d]%s" % (p, n, t))
        w.open("for %s := range %s {" % (i, p))
        w(u.tr(i))
        w.close()
        w("%s = &%s" % (p, arr))
        w.open("for %s, %s := range %s {" % (i, v, p))
        w("%s[%d] -= %s" % (p, n - 1, c(u, t, 1, 3)))
        w(u.tr(i, as_int(v, t)))
        w.close()
    else:
        w.open("for %s := range %s {" % (i, arr))
        w("%s[%s] ^= %s" % (arr, i, c(u, t, 1, 99)))
        w.close()
        w.open("for %s, %s := range %s[:] {" % (i, v, arr))
        w(u.tr(i, as_int(v, t)))
        w.close()
    w(u.tr(*[as_int("%s[%d]" % (arr, j), t) for j in range(n)]))


def rng_string(u, w, f):
    r = u.r
    s = u.lv("s")
    w("%s := %s + %s" % (s, sc(u), sc(u)))
    form = r.randrange(4)
    i, ch = u.lv("i"), u.lv("ch")
    u.feat("range-string%d" % form)
    if form == 0:
        w.open("for %s, %s := range %s {" % (i, ch, s))
        w(u.tr(i, "int(%s)" % ch))
        w.close()
    elif form == 1:
        w.open("for %s := range %s {" % (i, s))
        w(u.tr(i))
        w.close()
    elif form == 2:
        k = u.lv("n")
        w("%s := 0" % k)
        w.open("for range %s {" % s)
        w("%s++" % k)
        w.close()
        w(u.tr(k, "len(%s)" % s))
    else:
        # reassigning the string inside the loop does not affect the iteration
        w.open("for %s, %s := range %s {" % (i, ch, s))
        w("%s = \"\"" % s)
        w(u.tr(i, "int(%s)" % ch, "len(%s)" % s))
        w.close()
        w.open("for _, %s := range []rune(%s) {" % (ch, sc(u)))
        w(u.tr("int(%s)" % ch))
        w.close()
        w.open("for %s, %s := range []byte(%s) {" % (i, ch, sc(u)))
        w(u.tr(i, "int(%s)" % ch))
        w.close()


def rng_map(u, w, f):
    r = u.r
    t = f.pick_kind()
    m = u.lv("m")
    keyed_str = r.random() < 0.35
    u.feat("range-map-str" if keyed_str else "range-map-int")
    n = r.randint(0, 9)
    if keyed_str:
        w("%s := map[string]%s{}" % (m, t))
        for j in range(n):
            w("%s[%s + ¤Its(%d)] += %s" % (m, sc(u), r.randrange(4), c(u, t, 1, 30)))
        ks = u.lv("ks")
        k, v = u.lv("k"), u.lv("e")
        w("var %s []string" % ks)
        w.open("for %s := range %s {" % (k, m))
        w("%s = append(%s, %s)" % (ks, ks, k))
        w.close()
        w("¤SortStrs(%s)" % ks)
        w.open("for _, %s := range %s {" % (k, ks))
        w(u.ts(k))
        w(u.tr(as_int("%s[%s]" % (m, k), t)))
        w.close()
    else:
        w("%s := map[int]%s{}" % (m, t))
        for j in range(n):
            w("%s[%d] += %s" % (m, r.randrange(-3, 12), c(u, t, 1, 30)))
        ks = u.lv("ks")
        k, v = u.lv("k"), u.lv("e")
        acc = u.lv("acc")
        w("var %s []int" % ks)
        w("%s := 0" % acc)
        w.open("for %s, %s := range %s {" % (k, v, m))
        w("%s = append(%s, %s)" % (ks, ks, k))
        w("%s += %s*31 + int(%s)" % (acc, k, v))
        if r.random() < 0.5:
            u.feat("range-map-delete-self")
            w.open("if %s%%2 == 0 {" % k)
            w("delete(%s, %s)" % (m, k))
            w.close()
        w.close()
        w("¤SortInts(%s)" % ks)
        w(u.tr(acc, "len(%s)" % ks, "len(%s)" % m))
        w.open("for _, %s := range %s {" % (k, ks))
        e2, ok = u.lv("e"), u.lv("ok")
        w("%s, %s := %s[%s]" % (e2, ok, m, k))
        w(u.tr(k, as_int(e2, t), "¤Bi(%s)" % ok))
        w.close()
    if r.random() < 0.3:
        nm = u.lv("nm")
        w("var %s map[int]int" % nm)
        w.open("for range %s {" % nm)
        w(u.tr("99"))
        w.close()
        w(u.tr("len(%s)" % nm, "%s[3]" % nm))
        u.feat("range-nil-map")


def rng_chan(u, w, f):
    r = u.r
    t = f.pick_kind()
    ch = u.lv("ch")
    n = r.randint(0, 5)
    u.feat("range-chan")
    w("%s := make(chan %s, %d)" % (ch, t, n + r.randint(0, 2)))
    for j in range(n):
        w("%s <- %s" % (ch, c(u, t, -9, 90)))
    w("close(%s)" % ch)
    v = u.lv("e")
    if r.random() < 0.3 and n > 0:
        w.open("for range %s {" % ch)
        w(u.tr("len(%s)" % ch))
        w.close()
    else:
        w.open("for %s := range %s {" % (v, ch))
        w(u.tr(as_int(v, t), "len(%s)" % ch))
        if n > 2 and r.random() < 0.4:
            w.open("if %s == %s {" % (v, c(u, t, -9, 90)))
            w("break")
            w.close()
        w.close()
    e2, ok = u.lv("e"), u.lv("ok")
    w("%s, %s := <-%s" % (e2, ok, ch))
    w(u.tr(as_int(e2, t), "¤Bi(%s)" % ok))
    if r.random() < 0.6:
        # single-case select with a receive assignment: the left-hand side operands are evaluated AFTER the communication (spec, select statements)
        u.feat("select-recv-assign")
        c2 = u.lv("ch")
        dst = u.lv("dst")
        idx = u.lv("idx")
        w("%s := make(chan %s, 2)" % (c2, t))
        w("%s <- %s" % (c2, c(u, t, 1, 90)))
        w("%s <- %s" % (c2, c(u, t, 1, 90)))
        if r.random() < 0.5:
            w("var %s [3]%s" % (dst, t))
            w("%s := func() int { %s; return len(%s) }" % (idx, u.tr("len(%s)" % c2), c2))
            w.open("select {")
            w.mid("case %s[%s()] = <-%s:" % (dst, idx, c2))
            w.close()
            w(u.tr(*[as_int("%s[%d]" % (dst, j), t) for j in range(3)]))
        else:
            w("%s := map[int]%s{}" % (dst, t))
            w("%s := func() int { %s; return len(%s) + 10 }" % (idx, u.tr("len(%s)" % c2), c2))
            okv = u.lv("ok")
            w("var %s bool" % okv)
            w.open("select {")
            w.mid("case %s[%s()], %s = <-%s:" % (dst, idx, okv, c2))
            w.close()
            w(u.tr(as_int("%s[10]" % dst, t), as_int("%s[11]" % dst, t), as_int("%s[12]" % dst, t), "¤Bi(%s)" % okv))


def rng_func(u, w, f):
    """range-over-func iterators (declared in lib): 0/1/2 values, early break, continue, nesting, return from inside"""
    r = u.r
    t = f.pick_kind()
    seq = u.nm("Seq")
    L = u.lib
    form = r.randrange(7)
    u.feat("range-func%d" % form)
    if form in (0, 1, 4, 5, 6):
        L.open("func %s(n %s) func(func(%s) bool) {" % (seq, t, t))
        L.open("return func(yield func(%s) bool) {" % t)
        L.open("for i := %s(0); i < n; i++ {" % t)
        L("¤Tr(%d, \"y\", int(i))" % u.uid)
        L.open("if !yield(i * %s) {" % c(u, t, 1, 5))
        L("¤Tr(%d, \"stop\", int(i))" % u.uid)
        L("return")
        L.close()
        L.close()
        L("¤Tr(%d, \"done\")" % u.uid)
        L.close()
        L.close()
        L()
    if form == 0:
        v = u.lv("e")
        w.open("for %s := range §%s(%s) {" % (v, seq, c(u, t, 0, 5)))
        w.open("if %s == %s {" % (v, c(u, t, 0, 12)))
        w("continue")
        w.close()
        w.open("if %s > %s {" % (v, c(u, t, 2, 12)))
        w("break")
        w.close()
        w(u.tr(as_int(v, t)))
        w.close()
    elif form == 1:
        # nested iterators, labelled break/continue across them
        a, b = u.lv("e"), u.lv("e")
        lab = u.lv("L")
        w("%s:" % lab)
        w.open("for %s := range §%s(%s) {" % (a, seq, c(u, t, 1, 4)))
        w.open("for %s := range §%s(%s) {" % (b, seq, c(u, t, 1, 4)))
        w.open("if %s+%s == %s {" % (a, b, c(u, t, 1, 9)))
        w(r.choice(["continue %s" % lab, "break %s" % lab, "break", "continue"]))
        w.close()
        w(u.tr(as_int(a, t), as_int(b, t)))
        w.close()
        w.open("if %s > %s {" % (a, c(u, t, 50, 90)))
        w("break %s" % lab)
        w.close()
        w.close()
    elif form == 2:
        # two-value iterator over a slice, generic
        L.open("func %s[E any](xs []E) func(func(int, E) bool) {" % seq)
        L.open("return func(yield func(int, E) bool) {")
        L.open("for i, x := range xs {")
        L.open("if !yield(i, x) {")
        L("return")
        L.close()
        L.close()
        L.close()
        L.close()
        L()
        u.feat("generic-iter")
        i, v = u.lv("i"), u.lv("e")
        w.open("for %s, %s := range §%s(%s) {" % (i, v, seq, _slice_lit(u, t, r.randint(0, 5))))
        w(u.tr(i, as_int(v, t)))
        w.open("if %s == %d {" % (i, r.randint(1, 4)))
        w("break")
        w.close()
        w.close()
        w.open("for %s := range §%s([]string{%s, %s}) {" % (i, seq, sc(u), sc(u)))
        w(u.tr(i))
        w.close()
    elif form == 3:
        # zero-value iterator
        L.open("func %s(n int) func(func() bool) {" % seq)
        L.open("return func(yield func() bool) {")
        L.open("for n > 0 && yield() {")
        L("n--")
        L.close()
        L("¤Tr(%d, \"left\", n)" % u.uid)
        L.close()
        L.close()
        L()
        k = u.lv("n")
        w("%s := 0" % k)
        w.open("for range §%s(%d) {" % (seq, r.randint(0, 5)))
        w("%s++" % k)
        w.open("if %s == %d {" % (k, r.randint(1, 6)))
        w("break")
        w.close()
        w.close()
        w(u.tr(k))
    elif form == 4:
        # return from inside the loop body (helper function declared in body)
        h = u.nm("Find")
        B = W()
        B.open("func %s(lim %s) (int, bool) {" % (h, t))
        B.open("for e := range §%s(lim) {" % seq)
        B.open("if e >= %s {" % c(u, t, 1, 9))
        B("return int(e), true")
        B.close()
        B.close()
        B("return -1, false")
        B.close()
        u.body.lines = B.lines + [""] + u.body.lines
        for lim in (c(u, t, 0, 2), c(u, t, 3, 9)):
            a, ok = u.lv("r"), u.lv("ok")
            w("%s, %s := %s(%s)" % (a, ok, h, lim))
            w(u.tr(a, "¤Bi(%s)" % ok))
    elif form == 6:
        # panic raised inside the loop body, recovered by a function-level deferred literal of the enclosing function
        # (go1.24.0 mishandles this: the program is also built with go1.26 and the unit dropped when the references disagree)
        u.needs_go126 = True
        h = u.nm("Guard")
        B = W()
        B.open("func %s(lim %s) (cls string) {" % (h, t))
        B.open("defer func() {")
        B.open("if r := recover(); r != nil {")
        B("cls = ¤Cls(r)")
        B.close()
        B.close("}()")
        B.open("for e := range §%s(lim) {" % seq)
        B.open("if e >= %s {" % c(u, t, 2, 6))
        B("panic(\"in-body\")")
        B.close()
        B("¤Tr(%d, \"body\", int(e))" % u.uid)
        B.close()
        B("return \"done\"")
        B.close()
        u.body.lines = B.lines + [""] + u.body.lines
        for lim in (c(u, t, 0, 1), c(u, t, 4, 9)):
            s_ = u.lv("s")
            w("%s := %s(%s)" % (s_, h, lim))
            w(u.ts(s_))
    else:
        # closures capturing the per-iteration variable of a range-over-func loop
        fs = u.lv("fs")
        v = u.lv("e")
        w("var %s []func() %s" % (fs, t))
        w.open("for %s := range §%s(%s) {" % (v, seq, c(u, t, 1, 4)))
        w("%s = append(%s, func() %s { %s++; return %s })" % (fs, fs, t, v, v))
        w.close()
        g = u.lv("g")
        w.open("for _, %s := range %s {" % (g, fs))
        x = u.lv("x")
        w("%s := %s()" % (x, g))
        w(u.tr(as_int(x, t)))
        w.close()


def rng_int(u, w, f):
    r = u.r
    t = f.pick_kind()
    i = u.lv("i")
    u.feat("range-int")
    n = u.lv("n")
    w("%s := %s" % (n, c(u, t, 0, 5) if t != "int" else str(r.randint(0, 5))))
    w.open("for %s := range %s {" % (i, n))
    w("%s += %s" % (n, c(u, t, 1, 3)))     # the range expression is evaluated once
    w("%s += %s" % (i, c(u, t, 0, 2)))     # the iteration variable is per-iteration
    w(u.tr(as_int(i, t), as_int(n, t)))
    w.close()
    fs = u.lv("fs")
    w("var %s []func() int" % fs)
    w.open("for %s := range %d {" % (i, r.randint(1, 4)))
    w("%s = append(%s, func() int { return %s * %d })" % (fs, fs, i, r.randint(2, 9)))
    w.close()
    g = u.lv("g")
    w.open("for _, %s := range %s {" % (g, fs))
    x = u.lv("x")
    w("%s := %s()" % (x, g))
    w(u.tr(x))
    w.close()


RNG_FORMS = [rng_slice, rng_array, rng_string, rng_map, rng_chan, rng_func, rng_func, rng_int]


def k_rng(u):
    r = u.r
    t1, t2 = pick_t(u), pick_t(u)
    u.feat(t1, t2)
    b = u.body
    run_open(u)
    f = mkfill(u, b, t1, t2, depth=1, budget=6)
    forms = list(RNG_FORMS)
    r.shuffle(forms)
    for fm in forms[:r.randint(3, 5)]:
        b.open("{")
        fm(u, b, f)
        b.close()
    b.close()


# =================================================================================================
# masg: tuple assignment, swaps, operand evaluation phases

def k_masg(u):
    r = u.r
    t = pick_t(u)
    u.feat(t)
    L = u.lib
    nd = u.nm("Node")
    pr = u.nm("Pair")
    two = u.nm("Two")
    L.open("type %s struct {" % nd)
    L("V %s" % t)
    L("Next *%s" % nd)
    L.close()
    L()
    L("type %s struct{ A, B %s }" % (pr, t))
    L()
    L("func %s(a, b %s) (%s, %s) { return b, a + b }" % (two, t, t, t))
    L()
    b = u.body
    run_open(u)
    forms = list(range(10))
    r.shuffle(forms)
    for fm in forms[:r.randint(4, 7)]:
        u.feat("masg%d" % fm)
        b.open("{")
        if fm == 0:
            a = u.lv("a")
            i = u.lv("i")
            b("%s := []%s{%s}" % (a, t, ", ".join(c(u, t, 0, 9) for _ in range(4))))
            b("%s := %d" % (i, r.randint(0, 2)))
            k = r.randrange(3)
            if k == 0:
                b("%s, %s[%s] = %d, %s" % (i, a, i, r.randint(0, 3), c(u, t, 20, 90)))
            elif k == 1:
                b("%s[%s], %s = %s, %d" % (a, i, i, c(u, t, 20, 90), r.randint(0, 3)))
            else:
                b("%s, %s[%s], %s[%s+1] = %s+1, %s[%s+1], %s[%s]" % (i, a, i, a, i, i, a, i, a, i))
            b(u.tr(i, *[as_int("%s[%d]" % (a, j), t) for j in range(4)]))
        elif fm == 1:
            x, y, p, q = u.lv("x"), u.lv("y"), u.lv("p"), u.lv("q")
            b("%s, %s := %s, %s" % (x, y, c(u, t, 0, 50), c(u, t, 51, 99)))
            b("%s, %s := &%s, &%s" % (p, q, x, r.choice([x, y, y])))
            b("*%s, *%s = *%s, *%s" % (p, q, q, p))
            b(u.tr(as_int(x, t), as_int(y, t)))
            b("*%s, *%s = *%s+%s, *%s*%s" % (p, q, q, c(u, t, 1, 5), p, c(u, t, 2, 3)))
            b(u.tr(as_int(x, t), as_int(y, t)))
        elif fm == 2:
            s = u.lv("s")
            b("%s := §%s{%s, %s}" % (s, pr, c(u, t, 0, 50), c(u, t, 51, 99)))
            b("%s.A, %s.B = %s.B, %s.A" % (s, s, s, s))
            b(u.tr(as_int(s + ".A", t), as_int(s + ".B", t)))
            ps = u.lv("ps")
            b("%s := &%s" % (ps, s))
            b("%s.A, %s.B = %s.B+%s, %s.A" % (ps, s, s, c(u, t, 1, 9), ps))
            b(u.tr(as_int(s + ".A", t), as_int(s + ".B", t)))
        elif fm == 3:
            a = u.lv("a")
            n = r.randint(2, 5)
            b("%s := [%d]%s{%s}" % (a, n, t, ", ".join(c(u, t, 0, 99) for _ in range(n))))
            i, j = u.lv("i"), u.lv("j")
            b("%s, %s := %d, %d" % (i, j, r.randrange(n), r.randrange(n)))
            b("%s[%s], %s[%s] = %s[%s], %s[%s]" % (a, i, a, j, a, j, a, i))
            b(u.tr(*[as_int("%s[%d]" % (a, k), t) for k in range(n)]))
            # rotate through a loop
            b.open("for k := 0; k+1 < %d; k++ {" % n)
            b("%s[k], %s[k+1] = %s[k+1], %s[k]" % (a, a, a, a))
            b.close()
            b(u.tr(*[as_int("%s[%d]" % (a, k), t) for k in range(n)]))
        elif fm == 4:
            x, y = u.lv("x"), u.lv("y")
            b("%s, %s := %s, %s" % (x, y, c(u, t, 1, 9), c(u, t, 1, 9)))
            b.open("for k := 0; k < %d; k++ {" % r.randint(2, 12))
            b("%s, %s = %s, %s+%s" % (x, y, y, x, y))
            b.close()
            b(u.tr(as_int(x, t), as_int(y, t)))
            b("%s, %s = §%s(%s, %s)" % (x, y, two, x, y))
            b(u.tr(as_int(x, t), as_int(y, t)))
            b("%s, _ = §%s(%s, %s)" % (y, two, x, y))
            b("_, %s = §%s(%s, %s)" % (x, two, y, y))
            b(u.tr(as_int(x, t), as_int(y, t)))
        elif fm == 5:
            m = u.lv("m")
            b("%s := map[string]%s{\"a\": %s, \"b\": %s}" % (m, t, c(u, t, 0, 50), c(u, t, 51, 99)))
            b("%s[\"a\"], %s[\"b\"] = %s[\"b\"], %s[\"a\"]" % (m, m, m, m))
            b("%s[\"c\"], %s[\"a\"] = %s[\"a\"], %s[\"zz\"]" % (m, m, m, m))
            v, ok = u.lv("e"), u.lv("ok")
            b("%s, %s := %s[\"c\"]" % (v, ok, m))
            b(u.tr(as_int(v, t), "¤Bi(%s)" % ok, as_int(m + '["a"]', t), as_int(m + '["b"]', t), "len(%s)" % m))
            b("%s, %s = %s[\"nope\"]" % (v, ok, m))
            b(u.tr(as_int(v, t), "¤Bi(%s)" % ok))
        elif fm == 6:
            # in-place list reversal: prev, cur, cur.Next = cur, cur.Next, prev
            hd, cur, prev = u.lv("hd"), u.lv("cur"), u.lv("prev")
            b("var %s *§%s" % (hd, nd))
            b.open("for k := %d; k > 0; k-- {" % r.randint(1, 5))
            b("%s = &§%s{%s(k), %s}" % (hd, nd, t, hd))
            b.close()
            b("var %s *§%s" % (prev, nd))
            b("%s := %s" % (cur, hd))
            b.open("for %s != nil {" % cur)
            if r.random() < 0.5:
                b("%s, %s, %s.Next = %s, %s.Next, %s" % (prev, cur, cur, cur, cur, prev))
            else:
                b("%s.Next, %s, %s = %s, %s, %s.Next" % (cur, prev, cur, prev, cur, cur))
            b.close()
            b.open("for p := %s; p != nil; p = p.Next {" % prev)
            b(u.tr(as_int("p.V", t)))
            b.close()
        elif fm == 7:
            var, ok = u.lv("e"), u.lv("ok")
            iv = u.lv("iv")
            b("var %s any = %s" % (iv, r.choice([c(u, t, 0, 9) if t != "int" else "int(3)", sc(u), "true"])))
            if t == "int":
                b("%s, %s := %s.(int)" % (var, ok, iv))
            else:
                b("%s, %s := %s.(%s)" % (var, ok, iv, t))
            b(u.tr(as_int(var, t), "¤Bi(%s)" % ok))
            sv, ok2 = u.lv("sv"), u.lv("ok")
            b("%s, %s := %s.(string)" % (sv, ok2, iv))
            b(u.ts(sv))
            b(u.tr("¤Bi(%s)" % ok2))
        elif fm == 8:
            # three-way rotation with mixed lvalue kinds
            x = u.lv("x")
            a = u.lv("a")
            s = u.lv("s")
            b("%s := %s" % (x, c(u, t, 1, 30)))
            b("%s := []%s{%s, %s}" % (a, t, c(u, t, 31, 60), c(u, t, 61, 90)))
            b("%s := §%s{%s, %s}" % (s, pr, c(u, t, 91, 99), c(u, t, 100, 120)))
            b("%s, %s[0], %s.A, %s[1], %s.B = %s[0], %s.A, %s[1], %s.B, %s" % (x, a, s, a, s, a, s, a, s, x))
            b(u.tr(*[as_int(e, t) for e in (x, a + "[0]", a + "[1]", s + ".A", s + ".B")]))
        else:
            # := redeclaration: at least one new variable on the left, the others are assigned
            x = u.lv("x")
            y, z = u.lv("y"), u.lv("z")
            b("%s := %s" % (x, c(u, t, 1, 30)))
            b("%s, %s := %s+%s, %s" % (x, y, x, c(u, t, 1, 3), x))
            b(u.tr(as_int(x, t), as_int(y, t)))
            b.open("if %s, %s := %s, %s*2; %s > %s {" % (x, z, y, x, z, x))
            b(u.tr(as_int(x, t), as_int(z, t)))
            b("%s++" % x)
            b.close()
            b(u.tr(as_int(x, t)))
        b.close()
    b.close()


# =================================================================================================
# fun: results, named results, variadics, recursion

def k_fun(u):
    r = u.r
    t = pick_t(u)
    t2 = pick_t(u)
    u.feat(t, t2)
    in_lib = r.random() < 0.6
    D = u.lib if in_lib else u.body
    q = "§" if in_lib else ""
    b = W()          # Run body collected separately, appended at the end
    b.open("func %sRun() {" % u.P)
    forms = list(range(8))
    r.shuffle(forms)
    for fm in forms[:r.randint(4, 6)]:
        u.feat("fun%d" % fm)
        if fm == 0:
            # multiple results + filler body
            fn = u.nm("Multi")
            D.open("func %s(a %s, b %s) (%s, %s, bool) {" % (fn, t, t2, t2, t))
            f = mkfill(u, D, t, t2, depth=2, budget=10)
            f.add("a", t)
            f.add("b", t2)
            f.fuel_decl()
            f.stmts(r.randint(2, 4))
            D.open("if %s {" % f.be(2))
            D("return %s, %s, true" % (f.ie(t2, 2), f.ie(t, 2)))
            D.close()
            D("return b, a, false")
            D.close()
            D()
            for _ in range(2):
                x, y, z = u.lv("x"), u.lv("y"), u.lv("z")
                b("%s, %s, %s := %s%s(%s, %s)" % (x, y, z, q, fn, c(u, t, -5, 50), c(u, t2, -5, 50)))
                b(u.tr(as_int(x, t2), as_int(y, t), "¤Bi(%s)" % z))
        elif fm == 1:
            # named results, bare return, shadow-free updates
            fn = u.nm("Named")
            D.open("func %s(n %s) (lo, hi %s, cnt int) {" % (fn, t, t))
            D("hi = n")
            D.open("for lo < hi {")
            D("lo += %s" % c(u, t, 1, 3))
            D("hi -= %s" % c(u, t, 0, 2))
            D("cnt++")
            D.open("if cnt > %d {" % r.randint(2, 9))
            D("return")
            D.close()
            D.close()
            D("return lo + 1, hi, -cnt")
            D.close()
            D()
            for _ in range(2):
                x, y, z = u.lv("x"), u.lv("y"), u.lv("z")
                b("%s, %s, %s := %s%s(%s)" % (x, y, z, q, fn, c(u, t, 0, 60)))
                b(u.tr(as_int(x, t), as_int(y, t), z))
        elif fm == 2:
            # variadics: zero args, some args, spread slice (aliasing with the callee)
            fn = u.nm("Var")
            D.open("func %s(base %s, xs ...%s) (s %s, n int) {" % (fn, t, t, t))
            D("s = base")
            D.open("for _, x := range xs {")
            D("s += x")
            D.close()
            D.open("if len(xs) > 0 {")
            D("xs[0] = %s" % c(u, t, 70, 99))
            D.close()
            D("return s, len(xs)")
            D.close()
            D()
            xs = u.lv("xs")
            b("%s := %s" % (xs, _slice_lit(u, t, r.randint(0, 4))))
            calls = ["%s%s(%s)" % (q, fn, c(u, t, 0, 9)),
                     "%s%s(%s, %s)" % (q, fn, c(u, t, 0, 9), c(u, t, 0, 9)),
                     "%s%s(%s, %s, %s, %s)" % (q, fn, c(u, t, 0, 9), c(u, t, 0, 9), c(u, t, 0, 9), c(u, t, 0, 9)),
                     "%s%s(%s, %s...)" % (q, fn, c(u, t, 0, 9), xs),
                     "%s%s(%s, %s[:len(%s)/2]...)" % (q, fn, c(u, t, 0, 9), xs, xs),
                     "%s%s(%s, nil...)" % (q, fn, c(u, t, 0, 9))]
            r.shuffle(calls)
            for cl in calls[:4]:
                x, y = u.lv("x"), u.lv("n")
                b("%s, %s := %s" % (x, y, cl))
                b(u.tr(as_int(x, t), y, "len(%s)" % xs))
            b.open("for _, e := range %s {" % xs)
            b(u.tr(as_int("e", t)))
            b.close()
        elif fm == 3:
            # recursion (direct)
            fn = u.nm("Rec")
            k = r.randrange(3)
            if k == 0:
                D.open("func %s(n int) %s {" % (fn, t))
                D.open("if n < 2 {")
                D("return %s(n)" % t)
                D.close()
                D("return %s(n-1) + %s(n-2)*%s" % (fn, fn, c(u, t, 1, 3)))
                D.close()
            elif k == 1:
                D.open("func %s(n int) %s {" % (fn, t))
                D("¤Tr(%d, \"in\", n)" % u.uid)
                D.open("if n <= 0 {")
                D("return %s" % c(u, t, 1, 5))
                D.close()
                D("x := %s(n - 1)" % fn)
                D("¤Tr(%d, \"out\", n, int(x))" % u.uid)
                D("return x*%s + %s(n)" % (c(u, t, 2, 3), t))
                D.close()
            else:
                D.open("func %s(n int) (r %s) {" % (fn, t))
                D.open("defer func() {")
                D("r += %s(n)" % t)
                D.close("}()")
                D.open("if n == 0 {")
                D("return %s" % c(u, t, 1, 5))
                D.close()
                D("return %s(n-1) * 2" % fn)
                D.close()
                u.feat("defer-named-result")
            D()
            for n in (0, r.randint(1, 4), r.randint(5, 9)):
                x = u.lv("x")
                b("%s := %s%s(%d)" % (x, q, fn, n))
                b(u.tr(as_int(x, t)))
        elif fm == 4:
            # mutual recursion
            ev, od = u.nm("Even"), u.nm("Odd")
            D.open("func %s(n %s, depth int) bool {" % (ev, t))
            D.open("if n == 0 || depth > 40 {")
            D("return true")
            D.close()
            D("return %s(n-1, depth+1)" % od)
            D.close()
            D()
            D.open("func %s(n %s, depth int) bool {" % (od, t))
            D.open("if n == 0 || depth > 40 {")
            D("return false")
            D.close()
            D("return %s(n-1, depth+1)" % ev)
            D.close()
            D()
            for _ in range(3):
                x = u.lv("x")
                b("%s := %s%s(%s, 0)" % (x, q, r.choice([ev, od]), c(u, t, 0, 30)))
                b(u.tr("¤Bi(%s)" % x))
        elif fm == 5:
            # functions as arguments and results
            ap, mk = u.nm("Apply"), u.nm("Mk")
            D("func %s(f func(%s) %s, x %s, n int) %s {" % (ap, t, t, t, t))
            D("\tfor i := 0; i < n; i++ {")
            D("\t\tx = f(x)")
            D("\t}")
            D("\treturn x")
            D("}")
            D()
            D("func %s(k %s) func(%s) %s {" % (mk, t, t, t))
            D("\treturn func(x %s) %s { return x*k + %s }" % (t, t, c(u, t, 1, 9)))
            D("}")
            D()
            x, y = u.lv("x"), u.lv("y")
            b("%s := %s%s(%s%s(%s), %s, %d)" % (x, q, ap, q, mk, c(u, t, 1, 4), c(u, t, 0, 9), r.randint(0, 5)))
            b("%s := %s%s(func(v %s) %s { return v - %s }, %s, %d)" % (y, q, ap, t, t, c(u, t, 1, 9), x, r.randint(0, 5)))
            b(u.tr(as_int(x, t), as_int(y, t)))
        elif fm == 6:
            # results passed straight into another call: f(g())
            g, h = u.nm("G"), u.nm("H")
            D("func %s(a %s) (%s, %s, string) { return a + 1, %s(a) * 2, ¤Its(int(a)) }" % (g, t, t, t2, t2))
            D()
            D("func %s(a %s, b %s, s string) int { return int(a)*1000 + int(b) + len(s) }" % (h, t, t2))
            D()
            x = u.lv("x")
            b("%s := %s%s(%s%s(%s))" % (x, q, h, q, g, c(u, t, 0, 99)))
            b(u.tr(x))
        else:
            # array and struct parameters are copies; pointer/slice parameters alias
            fa, fp = u.nm("ByVal"), u.nm("ByPtr")
            n = r.randint(2, 4)
            D("func %s(a [%d]%s, s []%s) %s {" % (fa, n, t, t, t))
            D("\ta[0] += %s" % c(u, t, 1, 9))
            D("\tif len(s) > 0 {")
            D("\t\ts[0] += a[0]")
            D("\t}")
            D("\treturn a[0] + a[%d]" % (n - 1))
            D("}")
            D()
            D("func %s(a *[%d]%s) %s {" % (fp, n, t, t))
            D("\ta[0] += %s" % c(u, t, 1, 9))
            D("\treturn a[0] + a[%d]" % (n - 1))
            D("}")
            D()
            arr, sl = u.lv("arr"), u.lv("sl")
            b("%s := [%d]%s{%s}" % (arr, n, t, ", ".join(c(u, t, 0, 30) for _ in range(n))))
            b("%s := %s[:]" % (sl, arr))
            x, y = u.lv("x"), u.lv("y")
            b("%s := %s%s(%s, %s)" % (x, q, fa, arr, sl))
            b(u.tr(as_int(x, t), as_int(arr + "[0]", t)))
            b("%s := %s%s(&%s)" % (y, q, fp, arr))
            b(u.tr(as_int(y, t), as_int(arr + "[0]", t), as_int(sl + "[0]", t)))
    b.close()
    u.body.lines += b.lines


# =================================================================================================
# clo: closures and captured variables

def k_clo(u):
    r = u.r
    t = pick_t(u)
    t2 = pick_t(u)
    u.feat(t, t2)
    L = u.lib
    b = W()
    b.open("func %sRun() {" % u.P)
    forms = list(range(11))
    r.shuffle(forms)
    for fm in forms[:r.randint(4, 7)]:
        u.feat("clo%d" % fm)
        b.open("{")
        if fm == 0:
            # per-iteration loop variables (Go 1.22): 3-clause loop, closures collected and called later
            fs = u.lv("fs")
            n = r.randint(1, 4)
            b("var %s []func() %s" % (fs, t))
            b.open("for i := %s(0); i < %d; i++ {" % (t, n))
            b("%s = append(%s, func() %s { i += %s; return i })" % (fs, fs, t, c(u, t, 1, 20)))
            b.close()
            b.open("for round := 0; round < 2; round++ {")
            b.open("for _, g := range %s {" % fs)
            b("x := g()")
            b(u.tr("round", as_int("x", t)))
            b.close()
            b.close()
        elif fm == 1:
            # closure modifies the loop variable of the running iteration (copied into the next iteration before the post statement)
            b.open("for i := 0; i < %d; i++ {" % r.randint(3, 9))
            b("bump := func() { i += %d }" % r.randint(1, 2))
            b.open("if i%%%d == 0 {" % r.randint(2, 3))
            b("bump()")
            b.close()
            b(u.tr("i"))
            b.close()
            # address of the per-iteration variable
            ps = u.lv("ps")
            b("var %s []*int" % ps)
            b.open("for i := 0; i < 3; i++ {")
            b("%s = append(%s, &i)" % (ps, ps))
            b.close()
            b.open("for _, p := range %s {" % ps)
            b("*p += 10")
            b.close()
            b(u.tr("*%s[0]" % ps, "*%s[1]" % ps, "*%s[2]" % ps))
        elif fm == 2:
            # range loop variables captured
            fs = u.lv("fs")
            b("var %s []func() int" % fs)
            b.open("for k, e := range %s {" % _slice_lit(u, t, r.randint(1, 4)))
            b("%s = append(%s, func() int { k++; return k*100 + int(e) })" % (fs, fs))
            b.close()
            b.open("for _, g := range %s {" % fs)
            b("x := g()")
            b("y := g()")
            b(u.tr("x", "y"))
            b.close()
        elif fm == 3:
            # generator: two closures sharing one captured variable, several captured variables of different types
            mk = u.nm("Mk")
            L.open("func %s(start %s, name string) (func() %s, func(%s), func() string) {" % (mk, t, t, t))
            L("cnt := start")
            L("calls := 0")
            L("var big %s = %s" % (t2, c(u, t2, 1, 9)))
            L("on := false")
            L.open("next := func() %s {" % t)
            L("cnt++")
            L("calls++")
            L("on = !on")
            L("return cnt")
            L.close()
            L.open("add := func(d %s) {" % t)
            L("cnt += d")
            L("big *= %s" % c(u, t2, 2, 3))
            L("calls += 10")
            L.close()
            L.open("info := func() string {")
            L("s := name + \":\" + ¤Its(int(cnt)) + \":\" + ¤Its(calls) + \":\" + ¤Its(int(big))")
            L.open("if on {")
            L("s += \"!\"")
            L.close()
            L("return s")
            L.close()
            L("return next, add, info")
            L.close()
            L()
            nx, ad, inf = u.lv("nx"), u.lv("ad"), u.lv("inf")
            b("%s, %s, %s := §%s(%s, %s)" % (nx, ad, inf, mk, c(u, t, 0, 50), sc(u)))
            seqn = ["n", "a"] + [r.choice(["n", "a", "i"]) for _ in range(r.randint(1, 5))]
            r.shuffle(seqn)
            for op in seqn:
                if op == "n":
                    x = u.lv("x")
                    b("%s := %s()" % (x, nx))
                    b(u.tr(as_int(x, t)))
                elif op == "a":
                    b("%s(%s)" % (ad, c(u, t, 1, 9)))
                else:
                    x = u.lv("s")
                    b("%s := %s()" % (x, inf))
                    b(u.ts(x))
            x = u.lv("s")
            b("%s := %s()" % (x, inf))
            b(u.ts(x))
        elif fm == 4:
            # closures stored in struct fields, maps and slices
            box = u.nm("Box")
            L("type %s struct {" % box)
            L("\tName string")
            L("\tF    func(%s) %s" % (t, t))
            L("\tG    func() int")
            L("}")
            L()
            tot = u.lv("tot")
            b("%s := %s" % (tot, c(u, t, 0, 9)))
            bx = u.lv("bx")
            b("%s := §%s{Name: %s}" % (bx, box, sc(u)))
            b("%s.F = func(x %s) %s { %s += x; return %s }" % (bx, t, t, tot, tot))
            b("%s.G = func() int { return len(%s.Name) + int(%s) }" % (bx, bx, tot))
            tb = u.lv("tb")
            b("%s := map[string]func(%s) %s{\"f\": %s.F, \"d\": func(x %s) %s { return x * 2 }}" % (tb, t, t, bx, t, t))
            for k in [1] + [r.randrange(3) for _ in range(r.randint(1, 3))]:
                x = u.lv("x")
                if k == 0:
                    b("%s := %s.F(%s)" % (x, bx, c(u, t, 1, 9)))
                elif k == 1:
                    b("%s := %s[%s](%s)" % (x, tb, r.choice(['"f"', '"d"']), c(u, t, 1, 9)))
                else:
                    b("%s := %s(%s.G())" % (x, t, bx))
                b(u.tr(as_int(x, t), as_int(tot, t)))
            b("%s.Name += \"xx\"" % bx)
            x = u.lv("x")
            b("%s := %s.G()" % (x, bx))
            b(u.tr(x))
        elif fm == 5:
            # nested closures: the inner closure captures variables of two enclosing functions
            outer = u.nm("Outer")
            L.open("func %s(a %s) func(%s) func() %s {" % (outer, t, t, t))
            L("lvl0 := a")
            L.open("return func(b %s) func() %s {" % (t, t))
            L("lvl1 := b")
            L("lvl0++")
            L.open("return func() %s {" % t)
            L("lvl1 += %s" % c(u, t, 1, 5))
            L("lvl0 += lvl1")
            L("return lvl0*%s + lvl1 + a" % c(u, t, 2, 5))
            L.close()
            L.close()
            L.close()
            L()
            m, i1, i2 = u.lv("m"), u.lv("in"), u.lv("in")
            b("%s := §%s(%s)" % (m, outer, c(u, t, 0, 9)))
            b("%s := %s(%s)" % (i1, m, c(u, t, 0, 9)))
            b("%s := %s(%s)" % (i2, m, c(u, t, 10, 19)))
            for g in (i1, i2, i1, i2):
                x = u.lv("x")
                b("%s := %s()" % (x, g))
                b(u.tr(as_int(x, t)))
        elif fm == 6:
            # captured parameter and named result; deferred closure updates the result
            fn = u.nm("Res")
            L.open("func %s(p %s) (res %s) {" % (fn, t, t))
            L.open("defer func() {")
            L("res += p")
            L.close("}()")
            L("inc := func() { p++; res += %s }" % c(u, t, 1, 9))
            L("inc()")
            L("inc()")
            L("return res * %s" % c(u, t, 2, 4))
            L.close()
            L()
            x = u.lv("x")
            b("%s := §%s(%s)" % (x, fn, c(u, t, 0, 30)))
            b(u.tr(as_int(x, t)))
            u.feat("defer-named-result")
        elif fm == 7:
            # recursion through a closure variable
            fib = u.lv("rec")
            depth = u.lv("dep")
            b("%s := 0" % depth)
            b("var %s func(n int) %s" % (fib, t))
            b.open("%s = func(n int) %s {" % (fib, t))
            b("%s++" % depth)
            b.open("if n < 2 {")
            b("return %s(n)" % t)
            b.close()
            b("return %s(n-1) + %s(n-2)" % (fib, fib))
            b.close()
            x = u.lv("x")
            b("%s := %s(%d)" % (x, fib, r.randint(0, 9)))
            b(u.tr(as_int(x, t), depth))
        elif fm == 8:
            # immediately invoked function literal, capture by reference vs argument snapshot
            v = u.lv("v")
            b("%s := %s" % (v, c(u, t, 1, 30)))
            x = u.lv("x")
            b("%s := func(snap %s) %s { %s += %s; return snap*100 + %s }(%s)" % (x, t, t, v, c(u, t, 1, 9), v, v))
            b(u.tr(as_int(x, t), as_int(v, t)))
            rd = u.lv("rd")
            b("%s := func() %s { return %s }" % (rd, t, v))
            b("%s = %s" % (v, c(u, t, 40, 90)))
            y = u.lv("y")
            b("%s := %s()" % (y, rd))
            b(u.tr(as_int(y, t)))
        elif fm == 9:
            # many captured variables of different sizes, some read-only, some written (context layout)
            names = []
            types = []
            for k in range(r.randint(3, 6)):
                tt = r.choice(INTS + ["string", "bool"])
                n = u.lv("c")
                names.append(n)
                types.append(tt)
                if tt == "string":
                    b("%s := %s" % (n, sc(u)))
                elif tt == "bool":
                    b("%s := %s" % (n, r.choice(["true", "false"])))
                else:
                    b("%s := %s" % (n, c(u, tt, 1, 90) if tt != "int" else str(r.randint(1, 90))))
            g = u.lv("g")
            b.open("%s := func(k int) int {" % g)
            b("s := k")
            order = list(range(len(names)))
            r.shuffle(order)
            for k in order:
                n, tt = names[k], types[k]
                if tt == "string":
                    b("s += len(%s)" % n)
                    if r.random() < 0.5:
                        b("%s += \"+\"" % n)
                elif tt == "bool":
                    b("if %s {\n\t\t\ts++\n\t\t}" % n)
                    if r.random() < 0.5:
                        b("%s = !%s" % (n, n))
                else:
                    b("s = s*3 + int(%s)" % n)
                    if r.random() < 0.6:
                        b("%s += %s" % (n, c(u, tt, 1, 5)))
            b("return s")
            b.close()
            for _ in range(2):
                x = u.lv("x")
                b("%s := %s(%d)" % (x, g, r.randint(0, 9)))
                b(u.tr(x))
            b(u.tr(*[as_int(n, tt) for n, tt in zip(names, types)]))
        else:
            # closure with filler body capturing filler variables
            f = mkfill(u, b, t, t2, depth=2, budget=12)
            f.fuel_decl()
            a = f.decl(t)
            bb = f.decl(t2)
            g = u.lv("g")
            b.open("%s := func(p %s) %s {" % (g, t, t))
            mark = len(f.vars)
            f.add("p", t)
            f.stmts(r.randint(2, 4), 2)
            b("%s += p" % a)
            b("return %s" % f.ie(t, 2))
            del f.vars[mark:]
            b.close()

            def hook(ff, g=g, t=t):
                x = u.lv("x")
                ff.w("%s := %s(%s)" % (x, g, ff.ie(t, 1)))
                ff.w(u.tr(as_int(x, t)))
            f.hooks.append(hook)
            hook(f)
            f.stmts(r.randint(2, 4), 2)
            hook(f)
            f.trace_vars(4)
        b.close()
    b.close()
    u.body.lines += b.lines


# =================================================================================================
# mval: method values / method expressions (receiver evaluated and copied at bind time)

def k_mval(u):
    r = u.r
    t, t2 = pick_t(u), pick_t(u)
    u.feat(t, t2)
    L = u.lib
    V, N, I, O, OP = u.nm("V"), u.nm("N"), u.nm("I"), u.nm("O"), u.nm("OP")
    L("type %s struct {" % V)
    L("\tA   %s" % t)
    L("\tB   %s" % t2)
    L("\tTag string")
    L("}")
    L()
    L("func (v %s) Get(k %s) %s { return v.A*k + %s(v.B) }" % (V, t, t, t))
    L("func (v *%s) Inc(d %s) %s { v.A += d; return v.A }" % (V, t, t))
    L("func (v %s) Desc() string { return v.Tag + \"/\" + ¤Its(int(v.A)) }" % V)
    L()
    L("type %s %s" % (N, t))
    L()
    L("func (n %s) Twice() %s { return n * 2 }" % (N, N))
    L("func (n *%s) Bump() { *n += 3 }" % N)
    L()
    L("type %s interface{ Get(%s) %s }" % (I, t, t))
    L()
    L("type %s struct {" % O)
    L("\t%s" % V)
    L("\tZ %s" % t)
    L("}")
    L()
    L("type %s struct {" % OP)
    L("\t*%s" % V)
    L("\tZ %s" % t)
    L("}")
    L()
    b = u.body
    run_open(u)
    forms = list(range(10))
    r.shuffle(forms)
    for fm in forms[:r.randint(5, 8)]:
        u.feat("mval%d" % fm)
        b.open("{")
        v = u.lv("v")
        b("%s := §%s{%s, %s, %s}" % (v, V, c(u, t, 1, 9), c(u, t2, 1, 9), sc(u)))
        b("_ = %s" % v)
        k = c(u, t, 2, 5)
        if fm == 0:
            f = u.lv("f")
            b("%s := %s.Get" % (f, v))
            b("%s.A = %s" % (v, c(u, t, 20, 60)))
            x, y = u.lv("x"), u.lv("y")
            b("%s := %s(%s)" % (x, f, k))
            b("%s := %s.Get(%s)" % (y, v, k))
            b(u.tr(as_int(x, t), as_int(y, t)))
        elif fm == 1:
            g = u.lv("g")
            b("%s := %s.Inc" % (g, v))
            b("%s.A = %s" % (v, c(u, t, 20, 60)))
            x = u.lv("x")
            b("%s := %s(%s)" % (x, g, k))
            b(u.tr(as_int(x, t), as_int(v + ".A", t)))
            b("%s = §%s{}" % (v, V))
            b("%s(%s)" % (g, k))
            b(u.tr(as_int(v + ".A", t)))
        elif fm == 2:
            h, hp = u.lv("h"), u.lv("hp")
            b("%s := §%s.Get" % (h, V))
            b("%s := (*§%s).Inc" % (hp, V))
            x, y, z = u.lv("x"), u.lv("y"), u.lv("z")
            b("%s := %s(%s, %s)" % (x, h, v, k))
            b("%s := %s(&%s, %s)" % (y, hp, v, k))
            b("%s := (*§%s).Get(&%s, %s)" % (z, V, v, k))
            b(u.tr(as_int(x, t), as_int(y, t), as_int(z, t), as_int(v + ".A", t)))
        elif fm == 3:
            i, m = u.lv("it"), u.lv("m")
            ptr = r.random() < 0.5
            b("var %s §%s = %s%s" % (i, I, "&" if ptr else "", v))
            b("%s := %s.Get" % (m, i))
            b("%s.A = %s" % (v, c(u, t, 20, 60)))
            x = u.lv("x")
            b("%s := %s(%s)" % (x, m, k))
            b(u.tr(as_int(x, t)))
            u.feat("iface-method-value-ptr" if ptr else "iface-method-value-val")
        elif fm == 4:
            p_, f = u.lv("p"), u.lv("f")
            b("%s := &%s" % (p_, v))
            b("%s := %s.Get" % (f, p_))        # copies *p now
            b("%s.A = %s" % (p_, c(u, t, 20, 60)))
            d = u.lv("d")
            b("%s := %s.Desc" % (d, p_))
            b("%s.Tag = \"late\"" % p_)
            x, y = u.lv("x"), u.lv("s")
            b("%s := %s(%s)" % (x, f, k))
            b("%s := %s()" % (y, d))
            b(u.tr(as_int(x, t)))
            b(u.ts(y))
        elif fm == 5:
            fs = u.lv("fs")
            w2 = u.lv("v")
            b("%s := %s" % (w2, v))
            b("%s.A += %s" % (w2, c(u, t, 1, 9)))
            b("%s := []func(%s) %s{%s.Get, %s.Inc, %s.Get, %s.Inc}" % (fs, t, t, v, v, w2, w2))
            b("%s.A, %s.A = %s, %s" % (v, w2, c(u, t, 30, 40), c(u, t, 50, 60)))
            b.open("for j, fn := range %s {" % fs)
            b("x := fn(%s)" % k)
            b(u.tr("j", as_int("x", t)))
            b.close()
            b(u.tr(as_int(v + ".A", t), as_int(w2 + ".A", t)))
        elif fm == 6:
            n, f, bp = u.lv("n"), u.lv("f"), u.lv("bp")
            b("%s := §%s(%s)" % (n, N, c(u, t, 1, 9)))
            b("%s := %s.Twice" % (f, n))
            b("%s := %s.Bump" % (bp, n))
            b("%s = §%s(%s)" % (n, N, c(u, t, 10, 19)))
            b("%s()" % bp)
            b("%s()" % bp)
            x = u.lv("x")
            b("%s := %s()" % (x, f))
            b(u.tr("int(%s)" % x, "int(%s)" % n))
            y = u.lv("y")
            b("%s := §%s.Twice(%s)" % (y, N, n))
            b(u.tr("int(%s)" % y))
        elif fm == 7:
            o, op = u.lv("o"), u.lv("op")
            b("%s := §%s{%s, %s}" % (o, O, v, c(u, t, 1, 9)))
            b("%s := §%s{&%s, %s}" % (op, OP, v, c(u, t, 1, 9)))
            f1, f2, f3 = u.lv("f"), u.lv("f"), u.lv("f")
            b("%s := %s.Get" % (f1, o))       # copy of o.V now
            b("%s := %s.Get" % (f2, op))      # copy of *op.V now
            b("%s := %s.Inc" % (f3, op))      # bound to op.V (the pointer)
            b("%s.A = %s" % (v, c(u, t, 20, 60)))
            b("%s.A = %s" % (o, c(u, t, 61, 90)))
            for fn in (f1, f2, f3):
                x = u.lv("x")
                b("%s := %s(%s)" % (x, fn, k))
                b(u.tr(as_int(x, t)))
            b(u.tr(as_int(v + ".A", t), as_int(o + ".A", t), as_int(op + ".A", t)))
        elif fm == 8:
            ap = u.nm("Ap")
            L("func %s(f func(%s) %s, x %s) %s { return f(x) + f(x+1) }" % (ap, t, t, t, t))
            L()
            x, y = u.lv("x"), u.lv("y")
            b("%s := §%s(%s.Get, %s)" % (x, ap, v, k))
            b("%s := §%s(%s.Inc, %s)" % (y, ap, v, k))
            b(u.tr(as_int(x, t), as_int(y, t), as_int(v + ".A", t)))
        else:
            # method value of a value stored in a map / slice element / returned by a call: receiver copied at bind time
            m = u.lv("m")
            b("%s := map[string]§%s{\"k\": %s}" % (m, V, v))
            f = u.lv("f")
            b("%s := %s[\"k\"].Get" % (f, m))
            b("%s[\"k\"] = §%s{}" % (m, V))
            sl = u.lv("sl")
            b("%s := []§%s{%s, %s}" % (sl, V, v, v))
            g = u.lv("g")
            b("%s := %s[1].Inc" % (g, sl))     # &sl[1]
            x, y = u.lv("x"), u.lv("y")
            b("%s := %s(%s)" % (x, f, k))
            b("%s := %s(%s)" % (y, g, k))
            b(u.tr(as_int(x, t), as_int(y, t), as_int(sl + "[1].A", t), as_int(sl + "[0].A", t)))
        b.close()
    b.close()


# =================================================================================================
# emb: embedding, promotion, shadowing, interface embedding

def k_emb(u):
    r = u.r
    t = pick_t(u)
    u.feat(t)
    L = u.lib
    In, Mid, Out = u.nm("In"), u.nm("Mid"), u.nm("Out")
    Summer, Namer, Both, SB, Wrap = u.nm("Summer"), u.nm("Namer"), u.nm("Both"), u.nm("SB"), u.nm("Wrap")
    ptr_mid = r.random() < 0.4       # Outer embeds *Mid
    ptr_in = r.random() < 0.3        # Mid embeds *In
    out_sets = r.random() < 0.5      # Outer shadows SetA
    wrap_over = r.random() < 0.5     # Wrap overrides Sum
    u.feat("embptr-mid" if ptr_mid else "embval-mid", "embptr-in" if ptr_in else "embval-in",
           "shadow-method" if out_sets else "promoted-ptr-method", "iface-in-struct-override" if wrap_over else "iface-in-struct")
    L("type %s struct{ A, B %s }" % (In, t))
    L()
    L("func (i %s) Sum() %s { return i.A + i.B }" % (In, t))
    L("func (i *%s) SetA(x %s) { i.A = x }" % (In, t))
    L("func (i %s) Name() string { return \"in\" + ¤Its(int(i.A)) }" % In)
    L()
    L("type %s struct {" % Mid)
    L("\t%s%s" % ("*" if ptr_in else "", In))
    L("\tC %s" % t)
    L("}")
    L()
    L("func (m %s) Name() string { return \"mid\" + ¤Its(int(m.C)) + \"+\" + m.%s.Name() }" % (Mid, In))
    L()
    L("type %s struct {" % Out)
    L("\t%s%s" % ("*" if ptr_mid else "", Mid))
    L("\tA %s" % t)
    L("\tD %s" % t)
    L("}")
    L()
    if out_sets:
        L("func (o *%s) SetA(x %s) { o.A = x * 2 }" % (Out, t))
        L()
    order = [Summer, Namer]
    r.shuffle(order)
    L("type %s interface{ Sum() %s }" % (Summer, t))
    L("type %s interface{ Name() string }" % Namer)
    L("type %s interface {" % Both)
    for nm in order:
        L("\t%s" % nm)
    L("}")
    L("type %s interface {" % SB)
    if r.random() < 0.5:
        L("\tSetA(%s)" % t)
        L("\t%s" % Both)
    else:
        L("\t%s" % Both)
        L("\tSetA(%s)" % t)
    L("}")
    L()
    L("type %s struct {" % Wrap)
    L("\t%s" % Summer)
    L("\tK %s" % t)
    L("}")
    L()
    if wrap_over:
        L("func (w %s) Sum() %s { return w.%s.Sum()*w.K + %s }" % (Wrap, t, Summer, c(u, t, 1, 5)))
        L()
    b = u.body
    run_open(u)
    o = u.lv("o")
    inner = "%s§%s{%s, %s}" % ("&" if ptr_in else "", In, c(u, t, 1, 9), c(u, t, 10, 19))
    mid = "%s§%s{%s, %s}" % ("&" if ptr_mid else "", Mid, inner, c(u, t, 20, 29))
    b("%s := §%s{%s, %s, %s}" % (o, Out, mid, c(u, t, 30, 39), c(u, t, 40, 49)))
    steps = list(range(9))
    r.shuffle(steps)
    for st in steps[:r.randint(5, 9)]:
        u.feat("emb%d" % st)
        if st == 0:
            b(u.tr(*[as_int(e, t) for e in (o + ".A", o + "." + Mid + ".A", o + "." + In + ".A", o + ".B", o + ".C", o + ".D")]))
        elif st == 1:
            x = u.lv("x")
            b("%s := %s.Sum()" % (x, o))
            s1, s2 = u.lv("s"), u.lv("s")
            b("%s := %s.Name()" % (s1, o))
            b("%s := %s.%s.Name()" % (s2, o, In))
            b(u.tr(as_int(x, t)))
            b(u.ts(s1, s2))
        elif st == 2:
            b("%s.SetA(%s)" % (o, c(u, t, 50, 60)))
            b(u.tr(as_int(o + ".A", t), as_int(o + "." + In + ".A", t)))
            b("%s.%s.SetA(%s)" % (o, Mid, c(u, t, 3, 9)))
            b(u.tr(as_int(o + ".A", t), as_int(o + "." + In + ".A", t)))
        elif st == 3:
            s = u.lv("sm")
            b("var %s §%s = %s" % (s, Summer, o))        # copy (value) - or shares through embedded pointers
            b("%s.B += %s" % (o, c(u, t, 1, 9)))
            x, y = u.lv("x"), u.lv("y")
            b("%s := %s.Sum()" % (x, s))
            b("%s := %s.Sum()" % (y, o))
            b(u.tr(as_int(x, t), as_int(y, t)))
            nmr, ok = u.lv("nm"), u.lv("ok")
            b("%s, %s := %s.(§%s)" % (nmr, ok, s, Namer))
            b(u.tr("¤Bi(%s)" % ok))
            b.open("if %s {" % ok)
            sx = u.lv("s")
            b("%s := %s.Name()" % (sx, nmr))
            b(u.ts(sx))
            b.close()
        elif st == 4:
            sb = u.lv("sb")
            b("var %s §%s = &%s" % (sb, SB, o))
            b("%s.SetA(%s)" % (sb, c(u, t, 60, 70)))
            both = u.lv("bo")
            b("var %s §%s = %s" % (both, Both, sb))
            x, sx = u.lv("x"), u.lv("s")
            b("%s := %s.Sum()" % (x, both))
            b("%s := %s.Name()" % (sx, both))
            b(u.tr(as_int(x, t), as_int(o + ".A", t), as_int(o + "." + In + ".A", t)))
            b(u.ts(sx))
            sm = u.lv("sm")
            b("var %s §%s = %s" % (sm, Summer, both))
            y = u.lv("y")
            b("%s := %s.Sum()" % (y, sm))
            b(u.tr(as_int(y, t)))
        elif st == 5:
            w1, w2 = u.lv("w"), u.lv("w")
            b("%s := §%s{%s, %s}" % (w1, Wrap, o, c(u, t, 2, 4)))
            b("%s := §%s{%s, %s}" % (w2, Wrap, w1, c(u, t, 2, 4)))
            x, y = u.lv("x"), u.lv("y")
            b("%s := %s.Sum()" % (x, w1))
            b("%s := %s.Sum()" % (y, w2))
            b(u.tr(as_int(x, t), as_int(y, t)))
            z = u.lv("z")
            b("%s := %s.%s.Sum()" % (z, w2, Summer))
            b(u.tr(as_int(z, t)))
        elif st == 6:
            o2 = u.lv("o")
            b("%s := %s" % (o2, o))
            b("%s.C += %s" % (o2, c(u, t, 1, 9)))       # shared or not depending on pointer embedding
            b("%s.D += %s" % (o2, c(u, t, 1, 9)))
            b("%s.B += %s" % (o2, c(u, t, 1, 9)))
            b(u.tr(*[as_int(e, t) for e in (o + ".C", o2 + ".C", o + ".D", o2 + ".D", o + ".B", o2 + ".B")]))
        elif st == 7:
            f, g = u.lv("f"), u.lv("g")
            b("%s := %s.Sum" % (f, o))
            b("%s := %s.Name" % (g, o))
            b("%s.B = %s" % (o, c(u, t, 70, 80)))
            b("%s.C = %s" % (o, c(u, t, 70, 80)))
            x, sx = u.lv("x"), u.lv("s")
            b("%s := %s()" % (x, f))
            b("%s := %s()" % (sx, g))
            b(u.tr(as_int(x, t)))
            b(u.ts(sx))
        else:
            p_ = u.lv("p")
            b("%s := &%s" % (p_, o))
            x = u.lv("x")
            b("%s := %s.Sum()" % (x, p_))
            b("%s.SetA(%s)" % (p_, c(u, t, 1, 9)))
            b(u.tr(as_int(x, t), as_int(p_ + ".A", t), as_int(p_ + "." + In + ".A", t), as_int(p_ + ".B", t)))
    b.close()


# =================================================================================================
# dyn: dynamic dispatch, type switches, assertions, interface conversion and equality

def k_dyn(u):
    r = u.r
    t = pick_t(u)
    u.feat(t)
    L = u.lib
    pool = ["Zed", "Alpha", "Mid", "Beta", "Yank", "Cost", "Omega", "Delta"]
    r.shuffle(pool)
    nm = pool[:r.randint(2, 4)]
    u.feat("imethods%d" % len(nm), "sorted-decl" if nm == sorted(nm) else "unsorted-decl")
    I, J = u.nm("I"), u.nm("J")
    SV, SP, NI, NF, NS, SE = u.nm("SV"), u.nm("SP"), u.nm("NI"), u.nm("NF"), u.nm("NS"), u.nm("SE")
    emb_iface = r.random() < 0.5 and len(nm) >= 3
    if emb_iface:
        u.feat("iface-embeds-iface")
        L("type %s interface {" % J)
        L("\t%s(%s) %s" % (nm[0], t, t))
        L("}")
        L()
        L("type %s interface {" % I)
        L("\t%s(%s) %s" % (nm[1], t, t))
        L("\t%s" % J)
        for m in nm[2:]:
            L("\t%s(%s) %s" % (m, t, t))
        L("}")
    else:
        L("type %s interface {" % I)
        for m in nm:
            L("\t%s(%s) %s" % (m, t, t))
        L("}")
        L()
        L("type %s interface {" % J)
        L("\t%s(%s) %s" % (nm[0], t, t))
        L("}")
    L()
    L("type %s struct{ X %s }" % (SV, t))
    L("type %s struct {" % SP)
    L("\tX %s" % t)
    L("\tN int")
    L("}")
    L("type %s %s" % (NI, t))
    L("type %s func(%s) %s" % (NF, t, t))
    L("type %s []%s" % (NS, t))
    L("type %s struct {" % SE)
    L("\t%s" % SV)
    L("\tY %s" % t)
    L("}")
    L()
    for j, m in enumerate(nm):
        k1 = c(u, t, 2, 7)
        L("func (s %s) %s(k %s) %s { return s.X*%s + k + %s }" % (SV, m, t, t, k1, c(u, t, 0, 9)))
        L("func (s *%s) %s(k %s) %s { s.N++; s.X += k; return s.X + %s(s.N)*%s }" % (SP, m, t, t, t, c(u, t, 1, 9)))
        L("func (n %s) %s(k %s) %s { return %s(n)*k - %s }" % (NI, m, t, t, t, c(u, t, 0, 9)))
        L("func (f %s) %s(k %s) %s { return f(k) + %s }" % (NF, m, t, t, c(u, t, 0, 9)))
        L("func (s %s) %s(k %s) %s { return %s(len(s))*%s + k }" % (NS, m, t, t, t, c(u, t, 1, 9)))
    over = r.choice(nm)
    L("func (s %s) %s(k %s) %s { return s.Y - k + s.%s.%s(k) }" % (SE, over, t, t, SV, over))
    L()
    b = u.body
    run_open(u)
    sp = u.lv("sp")
    b("%s := &§%s{X: %s}" % (sp, SP, c(u, t, 1, 9)))
    cands = ["§%s{%s}" % (SV, c(u, t, 1, 9)), sp, "§%s(%s)" % (NI, c(u, t, 1, 9)),
             "§%s(func(x %s) %s { return x * %s })" % (NF, t, t, c(u, t, 2, 5)),
             "§%s{%s}" % (NS, ", ".join(c(u, t, 1, 9) for _ in range(r.randint(0, 3)))),
             "§%s{§%s{%s}, %s}" % (SE, SV, c(u, t, 1, 9), c(u, t, 10, 30)),
             "§%s{%s}" % (SV, c(u, t, 1, 9)), sp]
    r.shuffle(cands)
    cands = cands[:r.randint(3, 7)]
    items = u.lv("items")
    b("%s := []§%s{%s}" % (items, I, ", ".join(cands)))
    steps = list(range(7))
    r.shuffle(steps)
    for st in [0] + steps[:r.randint(3, 6)]:
        u.feat("dyn%d" % st)
        if st == 0:
            b.open("for j, it := range %s {" % items)
            for m in nm:
                x = u.lv("x")
                b("%s := it.%s(%s)" % (x, m, c(u, t, 1, 5)))
                b(u.tr("j", as_int(x, t)))
            b.close()
        elif st == 1:
            b.open("for j, it := range %s {" % items)
            b.open("switch v := it.(type) {")
            cs = [("§" + SV, "v.X"), ("*§" + SP, "v.X + %s(v.N)" % t), ("§" + NI, "%s(v)" % t), ("§" + NS, "%s(len(v))" % t),
                  ("§" + SE, "v.Y + v.X"), ("§" + NF, "v(%s)" % c(u, t, 1, 3))]
            r.shuffle(cs)
            keep = cs[:r.randint(2, 5)]
            for ty, ex in keep:
                b.mid("case %s:" % ty)
                b(u.tr("j", as_int(ex, t)))
            rest = [ty for ty, ex in cs if (ty, ex) not in keep]
            if len(rest) >= 2 and r.random() < 0.7:
                b.mid("case %s, %s:" % (rest[0], rest[1]))
                x = u.lv("x")
                b("%s := v.%s(1)" % (x, nm[0]))
                b(u.tr("j", "-2", as_int(x, t)))
                u.feat("typeswitch-multi")
            if r.random() < 0.5:
                b.mid("case nil:")
                b(u.tr("j", "-3"))
            b.mid("default:")
            b(u.tr("j", "-1"))
            b.close()
            b.close()
        elif st == 2:
            b.open("for j, it := range %s {" % items)
            v1, ok1 = u.lv("e"), u.lv("ok")
            v2, ok2 = u.lv("e"), u.lv("ok")
            b("%s, %s := it.(§%s)" % (v1, ok1, SV))
            b("%s, %s := it.(*§%s)" % (v2, ok2, SP))
            b(u.tr("j", "¤Bi(%s)" % ok1, as_int(v1 + ".X", t), "¤Bi(%s)" % ok2, "¤Bi(%s == nil)" % v2))
            b.close()
        elif st == 3:
            b.open("for j, it := range %s {" % items)
            jv = u.lv("jv")
            b("var %s §%s = it" % (jv, J))
            x = u.lv("x")
            b("%s := %s.%s(%s)" % (x, jv, nm[0], c(u, t, 1, 5)))
            back, ok = u.lv("bk"), u.lv("ok")
            b("%s, %s := %s.(§%s)" % (back, ok, jv, I))
            y = u.lv("y")
            b("%s := %s(0)" % (y, t))
            b.open("if %s {" % ok)
            b("%s = %s.%s(%s)" % (y, back, nm[-1], c(u, t, 1, 5)))
            b.close()
            b(u.tr("j", as_int(x, t), as_int(y, t)))
            b.close()
            u.feat("iface-to-iface")
        elif st == 4:
            # interface equality on comparable dynamic types only
            cmp_ = ["§%s{%s}" % (SV, c(u, t, 1, 3)), "§%s{%s}" % (SV, c(u, t, 1, 3)), sp, "&§%s{}" % SP, "§%s(%s)" % (NI, c(u, t, 1, 3)),
                    "§%s(%s)" % (NI, c(u, t, 1, 3)), "§%s{§%s{%s}, %s}" % (SE, SV, c(u, t, 1, 3), c(u, t, 1, 3)), "nil"]
            r.shuffle(cmp_)
            es = u.lv("es")
            b("%s := []§%s{%s}" % (es, I, ", ".join(cmp_[:5])))
            b.open("for a := range %s {" % es)
            b.open("for bb := range %s {" % es)
            b(u.tr("a", "bb", "¤Bi(%s[a] == %s[bb])" % (es, es), "¤Bi(%s[a] != nil)" % es))
            b.close()
            b.close()
            b(u.tr("¤Bi(%s[0] == §%s(§%s{%s}))" % (es, I, SV, c(u, t, 1, 3)), "¤Bi(any(%s[1]) == any(%s[2]))" % (es, es)))
            u.feat("iface-eq")
        elif st == 5:
            # any holding differently typed scalars
            ys = u.lv("ys")
            vals = ["int8(1)", "int16(1)", "1", "uint8(1)", "\"1\"", "true", "nil", "'1'", "int64(1)", "[2]int{1, 2}", "struct{ A int }{1}", "int8(1)"]
            r.shuffle(vals)
            b("%s := []any{%s}" % (ys, ", ".join(vals[:6])))
            b.open("for a := range %s {" % ys)
            b.open("for bb := range %s {" % ys)
            b(u.tr("a", "bb", "¤Bi(%s[a] == %s[bb])" % (ys, ys)))
            b.close()
            b.open("switch v := %s[a].(type) {" % ys)
            b.mid("case int8, int16:")
            b(u.tr("a", "1", "¤Bi(v == %s[0])" % ys))
            b.mid("case int:")
            b(u.tr("a", "2", "v"))
            b.mid("case string:")
            b(u.tr("a", "3", "len(v)"))
            b.mid("case nil:")
            b(u.tr("a", "4"))
            b.mid("case bool, rune:")
            b(u.tr("a", "5"))
            b.mid("case [2]int:")
            b(u.tr("a", "6", "v[1]"))
            b.mid("default:")
            b(u.tr("a", "7"))
            b.close()
            b.close()
            u.feat("any-eq", "typeswitch-scalars")
        else:
            # method value through the interface, stored and called later; dispatch after reassigning the slot
            b.open("if len(%s) >= 2 {" % items)
            f = u.lv("f")
            b("%s := %s[0].%s" % (f, items, nm[-1]))
            b("%s[0], %s[1] = %s[1], %s[0]" % (items, items, items, items))
            x, y = u.lv("x"), u.lv("y")
            b("%s := %s(%s)" % (x, f, c(u, t, 1, 5)))
            b("%s := %s[0].%s(%s)" % (y, items, nm[-1], c(u, t, 1, 5)))
            b(u.tr(as_int(x, t), as_int(y, t)))
            b.close()
    b(u.tr(as_int(sp + ".X", t), sp + ".N"))
    b.close()


# =================================================================================================
# gen: generic functions and types

def k_gen(u):
    r = u.r
    t = pick_t(u)
    t2 = pick_t(u)
    u.feat(t, t2)
    L = u.lib
    P = u.P
    Num, Ord = u.nm("Num"), u.nm("Ord")
    My = u.nm("My")
    L("type %s interface {" % Num)
    L("\t~int | ~int8 | ~int16 | ~int32 | ~int64 | ~uint | ~uint8 | ~uint16 | ~uint32 | ~uint64")
    L("}")
    L()
    L("type %s interface {" % Ord)
    L("\t%s | ~string" % Num)
    L("}")
    L()
    L("type %s %s" % (My, t))
    L()
    L("func (m %s) String() string { return \"my\" + ¤Its(int(m)) }" % My)
    L()
    b = W()
    b.open("func %sRun() {" % P)
    forms = list(range(12))
    r.shuffle(forms)
    for fm in forms[:r.randint(5, 8)]:
        u.feat("gen%d" % fm)
        b.open("{")
        if fm == 0:
            mx = u.nm("Max")
            L("func %s[T %s](a, b T) T {" % (mx, Ord))
            L("\tif a > b {")
            L("\t\treturn a")
            L("\t}")
            L("\treturn b")
            L("}")
            L()
            x, y, z, s = u.lv("x"), u.lv("y"), u.lv("z"), u.lv("s")
            b("%s := §%s(%s, %s)" % (x, mx, c(u, t, -9, 9), c(u, t, -9, 9)))
            b("%s := §%s[%s](%s, %s)" % (y, mx, t2, c(u, t2, 0, 9), c(u, t2, 0, 9)))
            b("%s := §%s(§%s(%s), §%s(%s))" % (z, mx, My, c(u, t, 0, 9), My, c(u, t, 0, 9)))
            b("%s := §%s(%s, %s)" % (s, mx, sc(u), sc(u)))
            b(u.tr(as_int(x, t), as_int(y, t2), "int(%s)" % z))
            b(u.ts(s))
            f = u.lv("f")
            b("%s := §%s[§%s]" % (f, mx, My))
            w_ = u.lv("w")
            b("%s := %s(3, 2)" % (w_, f))
            b(u.ts(w_ + ".String()"))
            u.feat("explicit-inst", "inferred-inst", "generic-func-value", "tilde-named")
        elif fm == 1:
            mp, fl, rd = u.nm("Map"), u.nm("Filter"), u.nm("Reduce")
            L("func %s[T, R any](xs []T, f func(T) R) []R {" % mp)
            L("\tout := make([]R, 0, len(xs))")
            L("\tfor _, x := range xs {")
            L("\t\tout = append(out, f(x))")
            L("\t}")
            L("\treturn out")
            L("}")
            L()
            L("func %s[T any](xs []T, keep func(T) bool) []T {" % fl)
            L("\tvar out []T")
            L("\tfor _, x := range xs {")
            L("\t\tif keep(x) {")
            L("\t\t\tout = append(out, x)")
            L("\t\t}")
            L("\t}")
            L("\treturn out")
            L("}")
            L()
            L("func %s[T, A any](xs []T, init A, f func(A, T) A) A {" % rd)
            L("\tacc := init")
            L("\tfor _, x := range xs {")
            L("\t\tacc = f(acc, x)")
            L("\t}")
            L("\treturn acc")
            L("}")
            L()
            xs = u.lv("xs")
            b("%s := %s" % (xs, _slice_lit(u, t, r.randint(0, 6))))
            ys, zs, tot, ss = u.lv("ys"), u.lv("zs"), u.lv("tot"), u.lv("ss")
            b("%s := §%s(%s, func(x %s) %s { return %s(x) * %s })" % (ys, mp, xs, t, t2, t2, c(u, t2, 2, 3)))
            b("%s := §%s(%s, func(x %s) bool { return x%%2 == 0 })" % (zs, fl, ys, t2))
            b("%s := §%s(%s, 0, func(a int, x %s) int { return a*3 + int(x) })" % (tot, rd, zs, t2))
            b("%s := §%s(§%s(%s, func(x %s) string { return ¤Its(int(x)) }), \"\", func(a string, x string) string { return a + x + \",\" })" % (ss, rd, mp, xs, t))
            b(u.tr("len(%s)" % ys, "len(%s)" % zs, tot))
            b(u.ts(ss))
            u.feat("generic-hof")
        elif fm == 2:
            st = u.nm("Stack")
            L("type %s[T any] struct{ items []T }" % st)
            L()
            L("func (s *%s[T]) Push(x T) { s.items = append(s.items, x) }" % st)
            L("func (s *%s[T]) Pop() (T, bool) {" % st)
            L("\tvar zero T")
            L("\tif len(s.items) == 0 {")
            L("\t\treturn zero, false")
            L("\t}")
            L("\tx := s.items[len(s.items)-1]")
            L("\ts.items = s.items[:len(s.items)-1]")
            L("\treturn x, true")
            L("}")
            L("func (s %s[T]) Len() int { return len(s.items) }" % st)
            L()
            s1, s2 = u.lv("st"), u.lv("st")
            b("var %s §%s[%s]" % (s1, st, t))
            b("%s := &§%s[string]{}" % (s2, st))
            ops = [r.choice(["u", "u", "o"]) for _ in range(r.randint(3, 8))]
            for op in ops:
                if op == "u":
                    b("%s.Push(%s)" % (s1, c(u, t, 0, 99)))
                    b("%s.Push(%s)" % (s2, sc(u)))
                else:
                    x, ok = u.lv("x"), u.lv("ok")
                    b("%s, %s := %s.Pop()" % (x, ok, s1))
                    b(u.tr(as_int(x, t), "¤Bi(%s)" % ok, "%s.Len()" % s1))
                    y, ok2 = u.lv("y"), u.lv("ok")
                    b("%s, %s := %s.Pop()" % (y, ok2, s2))
                    b(u.ts(y))
                    b(u.tr("¤Bi(%s)" % ok2))
            b(u.tr("%s.Len()" % s1, "%s.Len()" % s2))
            pf = u.lv("pf")
            b("%s := %s.Push" % (pf, s1))
            b("%s(%s)" % (pf, c(u, t, 0, 9)))
            b(u.tr("%s.Len()" % s1))
            u.feat("generic-type", "generic-method-value")
        elif fm == 3:
            pr, mk = u.nm("Pair"), u.nm("MkPair")
            L("type %s[K comparable, V any] struct {" % pr)
            L("\tKey K")
            L("\tVal V")
            L("}")
            L()
            L("func %s[K comparable, V any](k K, v V) %s[K, V] { return %s[K, V]{k, v} }" % (mk, pr, pr))
            L("func (p %s[K, V]) Get() (K, V) { return p.Key, p.Val }" % pr)
            L("func (p *%s[K, V]) Set(v V) { p.Val = v }" % pr)
            L("func (p %s[K, V]) Same(k K) bool { return p.Key == k }" % pr)
            L()
            p1, p2 = u.lv("p"), u.lv("p")
            b("%s := §%s(%s, %s)" % (p1, mk, sc(u), c(u, t, 0, 99)))
            b("%s := §%s[%s, string]{%s, %s}" % (p2, pr, t2, c(u, t2, 0, 9), sc(u)))
            b("%s.Set(%s)" % (p1, c(u, t, 0, 99)))
            k1, v1 = u.lv("k"), u.lv("e")
            b("%s, %s := %s.Get()" % (k1, v1, p1))
            b(u.ts(k1, p2 + ".Val"))
            b(u.tr(as_int(v1, t), "¤Bi(%s.Same(%s))" % (p2, c(u, t2, 0, 9)), "¤Bi(%s == §%s(%s.Key, %s.Val))" % (p2, mk, p2, p2)))
            u.feat("generic-type-2params", "generic-struct-eq")
        elif fm == 4:
            sm = u.nm("Sum")
            L("func %s[T %s](xs ...T) (s T) {" % (sm, Num))
            L("\tfor _, x := range xs {")
            L("\t\ts += x")
            L("\t}")
            L("\treturn")
            L("}")
            L()
            x, y, z = u.lv("x"), u.lv("y"), u.lv("z")
            b("%s := §%s(%s, %s, %s)" % (x, sm, c(u, t, 0, 50), c(u, t, 0, 50), c(u, t, 0, 50)))
            b("%s := §%s[%s]()" % (y, sm, t2))
            b("%s := §%s(%s...)" % (z, sm, "[]§%s{1, 2, %s}" % (My, c(u, t, 0, 9).replace(t + "(", "(") if t != "int" else c(u, t, 0, 9))))
            b(u.tr(as_int(x, t), as_int(y, t2), "int(%s)" % z))
            u.feat("generic-variadic")
        elif fm == 5:
            sh, strish = u.nm("Show"), u.nm("Strish")
            L("type %s interface {" % strish)
            L("\t%s" % Num)
            L("\tString() string")
            L("}")
            L()
            L("func %s[T %s](x T) string { return x.String() + \"#\" + ¤Its(int(x+1)) }" % (sh, strish))
            L()
            s = u.lv("s")
            b("%s := §%s(§%s(%s))" % (s, sh, My, c(u, t, 0, 50)))
            b(u.ts(s))
            u.feat("constraint-with-method")
        elif fm == 6:
            zr, kd = u.nm("Zero"), u.nm("Kind")
            L("func %s[T any]() T {" % zr)
            L("\tvar z T")
            L("\treturn z")
            L("}")
            L()
            L("func %s[T any](x T) int {" % kd)
            L("\tswitch v := any(x).(type) {")
            L("\tcase int:")
            L("\t\treturn 1 + v%2")
            L("\tcase string:")
            L("\t\treturn 10 + len(v)")
            L("\tcase %s:" % My)
            L("\t\treturn 20 + int(v)%3")
            L("\tcase []T:")
            L("\t\treturn 30")
            L("\tcase *T:")
            L("\t\treturn 40")
            L("\tcase nil:")
            L("\t\treturn 50")
            L("\t}")
            L("\treturn 0")
            L("}")
            L()
            vals = ["3", "\"abc\"", "§%s(%d)" % (My, r.randint(0, 9)), "true", "[]int{1}", "§%s[*int]()" % zr, "%s" % c(u, t2, 0, 9), "any(nil)", "§%s[string]()" % zr]
            r.shuffle(vals)
            b(u.tr(*["§%s(%s)" % (kd, v) for v in vals[:5]]))
            b(u.tr("int(§%s[%s]())" % (zr, t), "len(§%s[string]())" % zr, "¤Bi(§%s[*int]() == nil)" % zr, "len(§%s[[]int]())" % zr, "¤Bi(§%s[any]() == nil)" % zr))
            u.feat("generic-zero", "generic-typeswitch")
        elif fm == 7:
            ls, nd = u.nm("List"), "node%s" % u.nm("x")
            L("type %s[T any] struct {" % nd)
            L("\tv    T")
            L("\tnext *%s[T]" % nd)
            L("}")
            L()
            L("type %s[T any] struct {" % ls)
            L("\thead *%s[T]" % nd)
            L("\tn    int")
            L("}")
            L()
            L("func (l *%s[T]) Push(v T) { l.head = &%s[T]{v, l.head}; l.n++ }" % (ls, nd))
            L("func (l *%s[T]) Each(f func(int, T) bool) {" % ls)
            L("\ti := 0")
            L("\tfor p := l.head; p != nil; p = p.next {")
            L("\t\tif !f(i, p.v) {")
            L("\t\t\treturn")
            L("\t\t}")
            L("\t\ti++")
            L("\t}")
            L("}")
            L("func (l %s[T]) Len() int { return l.n }" % ls)
            L()
            l1 = u.lv("ls")
            b("%s := &§%s[%s]{}" % (l1, ls, t))
            for _ in range(r.randint(1, 5)):
                b("%s.Push(%s)" % (l1, c(u, t, 0, 99)))
            b("%s.Each(func(i int, v %s) bool {" % (l1, t))
            b("\t" + u.tr("i", as_int("v", t)))
            b("\treturn i < %d" % r.randint(0, 4))
            b("})")
            b(u.tr("%s.Len()" % l1))
            # the method used as a range-over-func iterator
            b.open("for i, v := range %s.Each {" % l1)
            b(u.tr("i", as_int("v", t)))
            b.close()
            u.feat("generic-list-unexported-node", "method-as-iterator")
        elif fm == 8:
            ks, pt = u.nm("Keys"), u.nm("Ptr")
            L("func %s[K comparable, V any](m map[K]V) []K {" % ks)
            L("\tout := make([]K, 0, len(m))")
            L("\tfor k := range m {")
            L("\t\tout = append(out, k)")
            L("\t}")
            L("\treturn out")
            L("}")
            L()
            L("func %s[T any](x T) *T { return &x }" % pt)
            L()
            m = u.lv("m")
            b("%s := map[int]%s{%s}" % (m, t, ", ".join("%d: %s" % (k, c(u, t, 0, 99)) for k in sorted(r.sample(range(-5, 20), r.randint(0, 5))))))
            kk = u.lv("ks")
            b("%s := §%s(%s)" % (kk, ks, m))
            b("¤SortInts(%s)" % kk)
            b.open("for _, k := range %s {" % kk)
            b(u.tr("k", as_int("%s[k]" % m, t)))
            b.close()
            p1, p2 = u.lv("p"), u.lv("p")
            b("%s := §%s(%s)" % (p1, pt, c(u, t, 0, 99)))
            b("%s := §%s(%s)" % (p2, pt, p1))
            b("**%s += %s" % (p2, c(u, t, 1, 9)))
            b(u.tr(as_int("*" + p1, t), "¤Bi(*%s == %s)" % (p2, p1)))
            u.feat("generic-map-keys", "generic-ptr")
        elif fm == 9:
            # generic closure factory: counter over any Num
            mk = u.nm("Counter")
            L("func %s[T %s](start, step T) func() T {" % (mk, Num))
            L("\tcur := start")
            L("\treturn func() T {")
            L("\t\tcur += step")
            L("\t\treturn cur")
            L("\t}")
            L("}")
            L()
            c1, c2 = u.lv("cn"), u.lv("cn")
            b("%s := §%s(%s, %s)" % (c1, mk, c(u, t, 0, 9), c(u, t, 1, 9)))
            b("%s := §%s[§%s](1, 2)" % (c2, mk, My))
            for cn, tt in ((c1, t), (c2, t), (c1, t)):
                x = u.lv("x")
                b("%s := %s()" % (x, cn))
                b(u.tr("int(%s)" % x))
            u.feat("generic-closure")
        elif fm == 10:
            # generic type embedding a generic type, method promotion through instantiation
            base, der = u.nm("Base"), u.nm("Der")
            L("type %s[T any] struct{ V T }" % base)
            L()
            L("func (b %s[T]) Get() T { return b.V }" % base)
            L("func (b *%s[T]) Put(v T) { b.V = v }" % base)
            L()
            L("type %s[T any] struct {" % der)
            L("\t%s[T]" % base)
            L("\tN int")
            L("}")
            L()
            L("func (d *%s[T]) Put(v T) { d.N++; d.%s.Put(v) }" % (der, base))
            L()
            d = u.lv("d")
            b("%s := §%s[%s]{}" % (d, der, t))
            b("%s.Put(%s)" % (d, c(u, t, 0, 99)))
            b("%s.Put(%s)" % (d, c(u, t, 0, 99)))
            x = u.lv("x")
            b("%s := %s.Get()" % (x, d))
            b(u.tr(as_int(x, t), d + ".N"))
            gi = u.lv("gi")
            b("var %s interface{ Get() %s } = %s" % (gi, t, d))
            y = u.lv("y")
            b("%s := %s.Get()" % (y, gi))
            b(u.tr(as_int(y, t)))
            u.feat("generic-embedding", "generic-iface-satisfaction")
        else:
            # generic function with a filler body over a Num type parameter (instantiated twice)
            fn = u.nm("Body")
            L.open("func %s[T %s](p0, p1 T) (res T) {" % (fn, Num))
            f = mkfill(u, L, "T", None, depth=2, budget=12)
            # the filler treats T as an integer kind with conservative literals (BITS["T"] in c01_core)
            f.add("p0", "T")
            f.add("p1", "T")
            f.add("res", "T")
            f.fuel_decl()
            f.lit = lambda tt, _r=r: _r.choice([0, 1, 2, 3, 5, 7, 10, 100])
            f.no_range = True
            f.stmts(r.randint(3, 6), 2)
            L("res += %s" % f.ie("T", 2))
            L("return")
            L.close()
            L()
            x, y = u.lv("x"), u.lv("y")
            b("%s := §%s(%s, %s)" % (x, fn, c(u, t, 0, 9), c(u, t, 0, 99)))
            b("%s := §%s[%s](%s, %s)" % (y, fn, t2, c(u, t2, 0, 9), c(u, t2, 0, 99)))
            b(u.tr(as_int(x, t), as_int(y, t2)))
            u.feat("generic-filler-body")
        b.close()
    b.close()
    u.body.lines += b.lines


# =================================================================================================
# cpy: struct/array copy vs pointer/slice aliasing

def k_cpy(u):
    r = u.r
    t = pick_t(u)
    u.feat(t)
    L = u.lib
    In, S = u.nm("In"), u.nm("S")
    n = r.randint(2, 4)
    L("type %s struct{ X, Y %s }" % (In, t))
    L()
    L("type %s struct {" % S)
    L("\tA   %s" % t)
    L("\tArr [%d]%s" % (n, t))
    L("\tIn  %s" % In)
    L("\tP   *%s" % t)
    L("\tSl  []%s" % t)
    L("}")
    L()
    L("func (s %s) Bumped() %s { s.A++; s.Arr[0]++; s.In.X++; return s }" % (S, S))
    L("func (s *%s) Inc() %s { s.A += %s; s.Arr[%d] += 2; return s.A }" % (S, t, c(u, t, 1, 9), n - 1))
    L()
    b = W()
    b.open("func %sRun() {" % u.P)

    def mk(name):
        cell = u.lv("cell")
        b("%s := %s" % (cell, c(u, t, 1, 9)))
        b("%s := §%s{%s, [%d]%s{%s}, §%s{%s, %s}, &%s, []%s{%s, %s}}" % (
            name, S, c(u, t, 1, 9), n, t, ", ".join(c(u, t, 1, 9) for _ in range(n)), In, c(u, t, 1, 9), c(u, t, 1, 9),
            cell, t, c(u, t, 1, 9), c(u, t, 1, 9)))
        return cell

    def dump(name):
        return u.tr(*[as_int(e, t) for e in (name + ".A", name + ".Arr[0]", name + ".Arr[%d]" % (n - 1), name + ".In.X", "*" + name + ".P", name + ".Sl[0]")])

    forms = list(range(12))
    r.shuffle(forms)
    if "retload" in u.avoid and 5 in forms:
        forms.remove(5)
    for fm in forms[:r.randint(4, 7)]:
        u.feat("cpy%d" % fm)
        b.open("{")
        if fm == 0:
            a, bb = u.lv("a"), u.lv("b")
            mk(a)
            b("%s := %s" % (bb, a))
            b("%s.A++" % bb)
            b("%s.Arr[0] += %s" % (bb, c(u, t, 1, 9)))
            b("%s.In.X += %s" % (bb, c(u, t, 1, 9)))
            b("%s.Sl[0] += %s" % (bb, c(u, t, 1, 9)))
            b("*%s.P += %s" % (bb, c(u, t, 1, 9)))
            b(dump(a))
            b(dump(bb))
        elif fm == 1:
            x, y, z, p_ = u.lv("x"), u.lv("y"), u.lv("z"), u.lv("p")
            b("%s := [%d]%s{%s}" % (x, n, t, ", ".join(c(u, t, 1, 9) for _ in range(n))))
            b("%s := %s" % (y, x))
            b("%s[0] = %s" % (y, c(u, t, 20, 30)))
            b("%s := &%s" % (p_, x))
            b("%s[1] = %s" % (p_, c(u, t, 40, 50)))
            b("%s := *%s" % (z, p_))
            b("%s[%d] = %s" % (z, n - 1, c(u, t, 60, 70)))
            b(u.tr(*[as_int("%s[%d]" % (v, j), t) for v in (x, y, z) for j in range(n)]))
            b(u.tr("¤Bi(%s == %s)" % (x, y), "¤Bi(%s == *%s)" % (x, p_), "¤Bi(%s != %s)" % (z, x)))
        elif fm == 2:
            s = u.lv("s")
            b("%s := [][2]%s{{%s, %s}, {%s, %s}}" % (s, t, c(u, t, 1, 9), c(u, t, 1, 9), c(u, t, 1, 9), c(u, t, 1, 9)))
            e = u.lv("e")
            b("%s := %s[0]" % (e, s))
            b("%s[0] += %s" % (e, c(u, t, 10, 20)))
            b("%s[0][1] += %s" % (s, c(u, t, 10, 20)))
            b.open("for _, el := range %s {" % s)
            b("el[0] = %s" % c(u, t, 90, 99))
            b("_ = el")
            b.close()
            b.open("for j := range %s {" % s)
            b("%s[j][1]++" % s)
            b.close()
            b(u.tr(*[as_int(x, t) for x in (e + "[0]", s + "[0][0]", s + "[0][1]", s + "[1][0]", s + "[1][1]")]))
            aa = u.lv("aa")
            b("%s := [2][2]%s{{1, 2}, {3, 4}}" % (aa, t))
            row = u.lv("row")
            b("%s := %s[1]" % (row, aa))
            b("%s[1][0] = %s" % (aa, c(u, t, 50, 60)))
            b(u.tr(as_int(row + "[0]", t), as_int(aa + "[1][0]", t)))
        elif fm == 3:
            m = u.lv("m")
            a = u.lv("a")
            mk(a)
            b("%s := map[string]§%s{\"k\": %s}" % (m, S, a))
            e = u.lv("e")
            b("%s := %s[\"k\"]" % (e, m))
            b("%s.A += %s" % (e, c(u, t, 10, 20)))
            b("%s.Sl[0] += %s" % (e, c(u, t, 10, 20)))
            b(u.tr(as_int(m + '["k"].A', t), as_int(e + ".A", t), as_int(m + '["k"].Sl[0]', t), as_int(a + ".Sl[0]", t)))
            b("%s[\"k\"] = %s" % (m, e))
            b(u.tr(as_int(m + '["k"].A', t), as_int(m + '["k"].Arr[0]', t)))
        elif fm == 4:
            a = u.lv("a")
            mk(a)
            c1, c2 = u.lv("c"), u.lv("r")
            b("%s := %s.Bumped()" % (c1, a))
            b("%s := %s.Inc()" % (c2, a))
            b(dump(a))
            b(dump(c1))
            b(u.tr(as_int(c2, t)))
        elif fm == 5:
            # copy made before a call that mutates the original through a pointer (see finding C01-retload-moved-past-call)
            fn = u.nm("Snap")
            L("func %s(seed %s) (%s, %s) {" % (fn, t, S, t))
            L("\tvar o %s" % S)
            L("\to.A = seed")
            L("\to.Sl = []%s{seed}" % t)
            L("\tp := &o")
            L("\tv := o")
            L("\tr := p.Inc()")
            L("\treturn v, r")
            L("}")
            L()
            v, x = u.lv("v"), u.lv("x")
            b("%s, %s := §%s(%s)" % (v, x, fn, c(u, t, 1, 50)))
            b(u.tr(as_int(v + ".A", t), as_int(v + ".Arr[%d]" % (n - 1), t), as_int(x, t)))
            u.feat("snapshot-before-mutating-call")
        elif fm == 6:
            a = u.lv("a")
            mk(a)
            iv = u.lv("iv")
            b("var %s any = %s" % (iv, a))
            b("%s.A += %s" % (a, c(u, t, 10, 20)))
            b("%s.Arr[0] += %s" % (a, c(u, t, 10, 20)))
            g = u.lv("g")
            b("%s := %s.(§%s)" % (g, iv, S))
            b(dump(g))
            b("%s.In.Y++" % g)
            g2 = u.lv("g")
            b("%s := %s.(§%s)" % (g2, iv, S))
            b(u.tr(as_int(g + ".In.Y", t), as_int(g2 + ".In.Y", t)))
        elif fm == 7:
            s1, s2 = u.lv("s"), u.lv("s")
            p1, p2 = u.lv("p"), u.lv("p")
            b("%s := make([]%s, 2, 2)" % (s1, t))
            b("%s := make([]%s, 2, 10)" % (s2, t))
            b("%s, %s := &%s[0], &%s[0]" % (p1, p2, s1, s2))
            b("%s = append(%s, %s)" % (s1, s1, c(u, t, 1, 9)))      # must reallocate: p1 no longer aliases s1[0]
            b("%s = append(%s, %s)" % (s2, s2, c(u, t, 1, 9)))      # in place: p2 still aliases s2[0]
            b("*%s, *%s = %s, %s" % (p1, p2, c(u, t, 30, 40), c(u, t, 50, 60)))
            b(u.tr(as_int(s1 + "[0]", t), as_int(s2 + "[0]", t), "len(%s)" % s1, "len(%s)" % s2))
            s3 = u.lv("s")
            b("%s := %s[:1]" % (s3, s2))
            b("%s = append(%s, %s)" % (s3, s3, c(u, t, 70, 80)))    # overwrites s2[1]
            b(u.tr(as_int(s2 + "[1]", t), as_int(s3 + "[1]", t)))
        elif fm == 8:
            a, bb = u.lv("a"), u.lv("b")
            mk(a)
            mk(bb)
            p1, p2 = u.lv("p"), u.lv("p")
            b("%s, %s := &%s, &%s" % (p1, p2, a, bb))
            b("*%s = *%s" % (p1, p2))
            b("%s.A += %s" % (p2, c(u, t, 10, 20)))
            b("%s.Arr[0] += %s" % (p2, c(u, t, 10, 20)))
            b(dump(a))
            b(dump(bb))
            b("*%s = §%s{Sl: []%s{0}, P: %s.P}" % (p2, S, t, a))
            b(dump(bb))
        elif fm == 11:
            # a copy read through a pointer, the memory overwritten, the copy returned: small aggregates are returned in
            # registers through an integer-typed slot (C-ABI rewriting); the value read BEFORE the store must come back
            sw, swa, swb = u.nm("Swap"), u.nm("SwapA"), u.nm("SwapB")
            B3 = u.nm("B3")
            L("type %s struct{ A, B, C uint8 }" % B3)
            L()
            for fnm, ty in ((sw, In), (swa, "[2]%s" % t), (swb, B3)):
                L("//go:noinline")
                L("func %s(p *%s, n %s) %s {" % (fnm, ty, ty, ty))
                L("\told := *p")
                L("\t*p = n")
                L("\treturn old")
                L("}")
                L()
            cur, old = u.lv("cur"), u.lv("old")
            b("%s := §%s{%s, %s}" % (cur, In, c(u, t, 1, 9), c(u, t, 10, 19)))
            b("%s := §%s(&%s, §%s{%s, %s})" % (old, sw, cur, In, c(u, t, 20, 29), c(u, t, 30, 39)))
            b(u.tr(*[as_int(e, t) for e in (old + ".X", old + ".Y", cur + ".X", cur + ".Y")]))
            ca, oa = u.lv("ca"), u.lv("oa")
            b("%s := [2]%s{%s, %s}" % (ca, t, c(u, t, 1, 9), c(u, t, 10, 19)))
            b("%s := §%s(&%s, [2]%s{%s, %s})" % (oa, swa, ca, t, c(u, t, 20, 29), c(u, t, 30, 39)))
            b(u.tr(*[as_int(e, t) for e in (oa + "[0]", oa + "[1]", ca + "[0]", ca + "[1]")]))
            cb, ob = u.lv("cb"), u.lv("ob")
            b("%s := §%s{1, 2, 3}" % (cb, B3))
            b("%s := §%s(&%s, §%s{4, 5, 6})" % (ob, swb, cb, B3))
            b(u.tr("int(%s.A)" % ob, "int(%s.B)" % ob, "int(%s.C)" % ob, "int(%s.A)" % cb))
            u.feat("snapshot-returned-after-store")
        elif fm == 10:
            # snapshot taken before the original is modified, boxed into an interface afterwards
            a, snap = u.lv("a"), u.lv("snap")
            mk(a)
            b("%s := %s" % (snap, a))
            b("%s.A += %s" % (a, c(u, t, 10, 20)))
            b("%s.Arr[0] += %s" % (a, c(u, t, 10, 20)))
            b("%s.In.Y += %s" % (a, c(u, t, 10, 20)))
            iv = u.lv("iv")
            b("var %s any = %s" % (iv, snap))
            g = u.lv("g")
            b("%s := %s.(§%s)" % (g, iv, S))
            b(dump(g))
            b(u.tr(as_int(g + ".In.Y", t), as_int(a + ".In.Y", t)))
            u.feat("snapshot-then-box")
        else:
            a = u.lv("a")
            mk(a)
            byref, byval = u.lv("f"), u.lv("f")
            b("%s := func() %s { %s.A++; return %s.A }" % (byref, t, a, a))
            b("%s := func(s §%s) %s { s.A += 100; s.Arr[0] += 100; return s.A }" % (byval, S, t))
            x, y = u.lv("x"), u.lv("y")
            b("%s := %s()" % (x, byref))
            b("%s := %s(%s)" % (y, byval, a))
            b(u.tr(as_int(x, t), as_int(y, t)))
            b(dump(a))
        b.close()
    b.close()
    u.body.lines += b.lines


# =================================================================================================
# eq: struct / array / interface equality

def k_eq(u):
    r = u.r
    t = pick_t(u)
    u.feat(t)
    L = u.lib
    K = u.nm("K")
    fpool = [("A", t), ("S", "string"), ("F", "float64"), ("I", "any"), ("Arr", "[2]%s" % t), ("P", "*%s" % t), ("B", "bool"),
             ("N", "struct{ X, Y int8 }"), ("C", "int8"), ("W", "uint16")]
    r.shuffle(fpool)
    fields = fpool[:r.randint(2, 6)]
    if r.random() < 0.3:
        fields.insert(r.randrange(len(fields) + 1), ("_", "int32"))
        u.feat("blank-field")
    u.feat("nfields%d" % len(fields), "last-" + fields[-1][1].split("{")[0].split("]")[-1].replace("*", "ptr").replace(" ", ""))
    L("type %s struct {" % K)
    for fn, ft in fields:
        L("\t%s %s" % (fn, ft))
    L("}")
    L()
    eqg = u.nm("Eq")
    L("func %s[T comparable](a, b T) bool { return a == b }" % eqg)
    L()
    b = u.body
    run_open(u)
    cell1, cell2 = u.lv("c"), u.lv("c")
    b("%s, %s := %s, %s" % (cell1, cell2, c(u, t, 1, 9), c(u, t, 1, 9)))
    b("_, _ = %s, %s" % (cell1, cell2))
    dyn = u.lv("dyn")
    b("%s := ¤Its(¤Nk(%d))" % (dyn, r.randint(10, 99)))
    b("_ = %s" % dyn)
    fz = u.lv("fz")
    b("%s := float64(¤Nk(0))" % fz)
    b("_ = %s" % fz)

    def val(ft, alt):
        """two spellings of an equal value (alt=0/1) or a different value (alt=2)"""
        if ft == t:
            return [c(u, t, 5, 5), "%s(¤Nk(5))" % t, c(u, t, 6, 9)][alt]
        if ft == "string":
            return ["\"x\" + %s" % dyn, "¤Cap(\"x\" + %s + \"zz\", len(%s)+1)" % (dyn, dyn), "\"y\" + %s" % dyn][alt]
        if ft == "float64":
            return ["1.5", "1.5 + %s" % fz, "2.5"][alt]
        if ft == "any":
            return ["int16(3)", "int16(¤Nk(3))", r.choice(["int32(3)", "\"3\"", "nil", "int16(4)"])][alt]
        if ft.startswith("[2]"):
            return ["[2]%s{1, 2}" % t, "[2]%s{%s(¤Nk(1)), 2}" % (t, t), "[2]%s{1, 3}" % t][alt]
        if ft.startswith("*"):
            return ["&" + cell1, "&" + cell1, "&" + cell2][alt]
        if ft == "bool":
            return ["true", "¤Nk(1) == 1", "false"][alt]
        if ft.startswith("struct"):
            return ["struct{ X, Y int8 }{1, 2}", "struct{ X, Y int8 }{1, int8(¤Nk(2))}", "struct{ X, Y int8 }{1, 3}"][alt]
        if ft == "int8":
            return ["int8(-3)", "int8(¤Nk(-3))", "int8(3)"][alt]
        if ft == "uint16":
            return ["uint16(513)", "uint16(¤Nk(513))", "uint16(1)"][alt]
        return "0"

    def lit(alts):
        parts = []
        for (fn, ft), a in zip(fields, alts):
            if fn == "_":
                continue
            parts.append("%s: %s" % (fn, val(ft, a)))
        return "§%s{%s}" % (K, ", ".join(parts))

    base = u.lv("k")
    same = u.lv("k")
    b("%s := %s" % (base, lit([0] * len(fields))))
    b("%s := %s" % (same, lit([1] * len(fields))))
    b(u.tr("¤Bi(%s == %s)" % (base, same), "¤Bi(%s != %s)" % (base, same), "¤Bi(§%s(%s, %s))" % (eqg, base, same),
           "¤Bi(any(%s) == any(%s))" % (base, same)))
    # one field differs at a time (every position, the last one included)
    for j, (fn, ft) in enumerate(fields):
        if fn == "_":
            continue
        d = u.lv("k")
        alts = [1] * len(fields)
        alts[j] = 2
        b("%s := %s" % (d, lit(alts)))
        b(u.tr(str(j), "¤Bi(%s == %s)" % (base, d), "¤Bi(%s != %s)" % (d, same), "¤Bi(any(%s) == any(%s))" % (d, base),
               "¤Bi(§%s(%s, %s))" % (eqg, d, base)))
        u.feat("diff-" + ("last" if j == len(fields) - 1 else "inner"))
    steps = list(range(6))
    r.shuffle(steps)
    for st in steps[:r.randint(2, 5)]:
        u.feat("eq%d" % st)
        if st == 0:
            # struct keys in a map: equal-but-distinct key hits
            m = u.lv("m")
            b("%s := map[§%s]int{%s: 1}" % (m, K, base))
            b("%s[%s] += 10" % (m, same))
            d = u.lv("k")
            alts = [0] * len(fields)
            alts[-1 if fields[-1][0] != "_" else 0] = 2
            b("%s := %s" % (d, lit(alts)))
            b("%s[%s] += 100" % (m, d))
            b(u.tr("len(%s)" % m, "%s[%s]" % (m, base), "%s[%s]" % (m, d)))
            u.feat("struct-map-key")
        elif st == 1:
            # arrays of structs / strings
            a1, a2, a3 = u.lv("a"), u.lv("a"), u.lv("a")
            b("%s := [2]§%s{%s, %s}" % (a1, K, base, same))
            b("%s := [2]§%s{%s, %s}" % (a2, K, same, base))
            b("%s := %s" % (a3, a1))
            alts = [1] * len(fields)
            alts[-1 if fields[-1][0] != "_" else 0] = 2
            b("%s[1] = %s" % (a3, lit(alts)))
            b(u.tr("¤Bi(%s == %s)" % (a1, a2), "¤Bi(%s == %s)" % (a1, a3), "¤Bi(%s != %s)" % (a2, a3)))
            s1, s2 = u.lv("s"), u.lv("s")
            b("%s := [3]string{\"a\", %s, \"\"}" % (s1, dyn))
            b("%s := [3]string{\"a\", ¤Its(¤Nk(0)+%s), \"\"}" % (s2, "int(%s[0]-'0')*10+int(%s[1]-'0')" % (dyn, dyn)))
            b(u.tr("¤Bi(%s == %s)" % (s1, s2)))
            u.feat("array-eq")
        elif st == 2:
            # NaN never equals itself, also inside aggregates
            nan = u.lv("nan")
            b("%s := %s / %s" % (nan, fz, fz))
            n1 = u.lv("n")
            b("%s := struct {" % n1)
            b("\tA int")
            b("\tF float64")
            b("}{1, %s}" % nan)
            n2 = u.lv("n")
            b("%s := %s" % (n2, n1))
            ar = u.lv("ar")
            b("%s := [2]float64{1, %s}" % (ar, nan))
            ar2 = u.lv("ar")
            b("%s := %s" % (ar2, ar))
            neg = u.lv("ng")
            b("%s := -%s" % (neg, fz))
            b(u.tr("¤Bi(%s == %s)" % (n1, n2), "¤Bi(%s == %s)" % (ar, ar2), "¤Bi(%s == %s)" % (nan, nan), "¤Bi(any(%s) == any(%s))" % (nan, nan),
                   "¤Bi(%s == %s)" % (neg, fz), "¤Bi(¤Fb(%s) == ¤Fb(%s))" % (neg, fz)))
            u.feat("nan-eq")
        elif st == 3:
            # interface values: dynamic type and value
            xs = u.lv("xs")
            vs = [base, same, "&" + base, "&" + base, "&" + same, "any(nil)", "[2]%s{1, 2}" % t, "[2]%s{%s(¤Nk(1)), 2}" % (t, t), dyn, "\"\" + " + dyn,
                  c(u, t, 3, 3), "%s(¤Nk(3))" % t, "int(3)" if t != "int" else "int8(3)", "struct{}{}", "struct{}{}"]
            r.shuffle(vs)
            b("%s := []any{%s}" % (xs, ", ".join(vs[:7])))
            b.open("for i := range %s {" % xs)
            b.open("for j := range %s {" % xs)
            b(u.tr("i", "j", "¤Bi(%s[i] == %s[j])" % (xs, xs)))
            b.close()
            b.close()
            u.feat("iface-eq")
        elif st == 4:
            # comparing interface with concrete operand, pointers, nil-ness of typed nil in interface
            var = u.lv("iv")
            b("var %s any = %s" % (var, base))
            np_ = u.lv("np")
            b("var %s *§%s" % (np_, K))
            iv2 = u.lv("iv")
            b("var %s any = %s" % (iv2, np_))
            b(u.tr("¤Bi(%s == %s)" % (var, same), "¤Bi(%s == nil)" % iv2, "¤Bi(%s == nil)" % np_, "¤Bi(%s == (*§%s)(nil))" % (iv2, K),
                   "¤Bi(&%s == &%s)" % (base, base), "¤Bi(&%s == &%s)" % (base, same)))
            u.feat("typed-nil-in-iface")
        else:
            # array / interface keys in maps
            ma = u.lv("ma")
            b("%s := map[[2]%s]int{}" % (ma, t))
            b("%s[[2]%s{1, 2}]++" % (ma, t))
            b("%s[[2]%s{%s(¤Nk(1)), 2}]++" % (ma, t, t))
            b("%s[[2]%s{2, 1}]++" % (ma, t))
            mi = u.lv("mi")
            b("%s := map[any]int{}" % mi)
            for v in [base, same, "int8(1)", "int16(1)", "int8(¤Nk(1))", dyn, "\"\" + " + dyn, "nil", "[1]int{1}", "true"]:
                b("%s[%s]++" % (mi, v))
            b(u.tr("len(%s)" % ma, "%s[[2]%s{1, 2}]" % (ma, t), "len(%s)" % mi, "%s[%s]" % (mi, base), "%s[int8(1)]" % mi, "%s[%s]" % (mi, dyn), "%s[nil]" % mi))
            u.feat("array-map-key", "iface-map-key")
    b.close()


# =================================================================================================
# tsw: switch statements beyond the filler (case evaluation order, string / struct tags, type switch details)

def k_tsw(u):
    r = u.r
    t = pick_t(u)
    u.feat(t)
    L = u.lib
    ev = u.nm("Ev")
    L("func %s(tag string, v %s) %s {" % (ev, t, t))
    L("\t¤Ts(%d, \"ev\", tag)" % u.uid)
    L("\treturn v")
    L("}")
    L()
    Shape, Sq, Ci = u.nm("Shape"), u.nm("Sq"), u.nm("Ci")
    L("type %s interface{ Area() %s }" % (Shape, t))
    L("type %s struct{ S %s }" % (Sq, t))
    L("type %s struct{ R %s }" % (Ci, t))
    L()
    L("func (s %s) Area() %s { return s.S * s.S }" % (Sq, t))
    L("func (c *%s) Area() %s {" % (Ci, t))
    L("\tif c == nil {")        # a typed nil pointer may reach this method through the interface case of the type switch
    L("\t\treturn %s" % c(u, t, 90, 99))
    L("\t}")
    L("\treturn c.R * 3")
    L("}")
    L()
    cls = u.nm("Cls")
    L("func %s(v any) int {" % cls)
    L("\tswitch x := v.(type) {")
    arms = [("nil", "return -1"), ("int", "return x + 1"), ("string", "return len(x) + 100"), ("bool", "if x {\n\t\t\treturn 201\n\t\t}\n\t\treturn 200"),
            (Sq, "return 300 + int(x.S)"), ("*" + Ci, "if x == nil {\n\t\t\treturn 399\n\t\t}\n\t\treturn 400 + int(x.R)"),
            (Shape, "return 500 + int(x.Area())"), ("[]int", "return 600 + len(x)"), ("func() int", "return 700 + x()"),
            ("error", "return 800 + len(x.Error())"), ("map[string]int", "return 900 + len(x)"), ("*int", "return 1000 + *x"),
            ("int8, int16, int32", "_ = x\n\t\treturn 1100"), ("[2]int", "return 1200 + x[1]"), ("struct{ A int }", "return 1300 + x.A"),
            ("chan int", "return 1400 + cap(x)"), ("uint8", "return 1500 + int(x)")]
    r.shuffle(arms)
    arms = arms[:r.randint(5, 11)]
    # an interface case placed before concrete implementers would capture them: keep that ordering effect, it is determined
    for ty, body in arms:
        L("\tcase %s:" % ty)
        L("\t\t" + body)
    L("\t}")
    L("\treturn 0")
    L("}")
    L()
    terr = u.nm("Err")
    L("type %s struct{}" % terr)
    L()
    L("func (%s) Error() string { return \"e!\" }" % terr)
    L()
    b = u.body
    run_open(u)
    forms = list(range(7))
    r.shuffle(forms)
    for fm in [0] + forms[:r.randint(3, 5)]:
        u.feat("tsw%d" % fm)
        b.open("{")
        if fm == 0:
            one = u.lv("one")
            b("%s := 7" % one)
            var_ci = u.lv("ci")
            b("var %s *§%s" % (var_ci, Ci))
            b("_, _ = %s, %s" % (one, var_ci))
            vals = ["nil", "5", "\"hey\"", "true", "§%s{%s}" % (Sq, c(u, t, 1, 5)), "&§%s{%s}" % (Ci, c(u, t, 1, 5)), var_ci, "[]int{1, 2}",
                    "func() int { return 9 }", "§%s{}" % terr, "map[string]int{\"a\": 1}", "&" + one, "int16(3)", "[2]int{4, 5}", "struct{ A int }{6}",
                    "make(chan int, 3)", "uint8(200)", "3.5", "int64(1)", "&§%s{}" % Sq]
            r.shuffle(vals)
            for v in vals[:r.randint(6, 12)]:
                x = u.lv("x")
                b("%s := §%s(%s)" % (x, cls, v))
                b(u.tr(x))
        elif fm == 1:
            # case expressions are evaluated top-to-bottom, left-to-right, only until a match
            tag = u.lv("tg")
            b("%s := %s" % (tag, c(u, t, 1, 6)))
            b.open("switch §%s(\"tag\", %s) {" % (ev, tag))
            b.mid("case §%s(\"a\", %s), §%s(\"b\", %s):" % (ev, c(u, t, 1, 6), ev, c(u, t, 1, 6)))
            b(u.tr("1"))
            if r.random() < 0.5:
                b("fallthrough")
            b.mid("case §%s(\"c\", %s):" % (ev, c(u, t, 1, 6)))
            b(u.tr("2"))
            b.mid("default:")
            b(u.tr("3"))
            b.mid("case §%s(\"d\", %s), %s:" % (ev, c(u, t, 1, 6), tag))
            b(u.tr("4"))
            b.close()
        elif fm == 2:
            s = u.lv("s")
            b.open("for _, %s := range []string{%s, %s, \"go\", \"\", \"ab\"} {" % (s, sc(u), sc(u)))
            b.open("switch %s {" % s)
            b.mid("case \"go\", \"a\" + \"b\":")
            b(u.tr("1", "len(%s)" % s))
            b.mid("case \"\":")
            b(u.tr("2"))
            b("fallthrough")
            b.mid("case \"never\":")
            b(u.tr("3"))
            b.mid("default:")
            b(u.tr("4", "len(%s)" % s))
            b.close()
            b.close()
            u.feat("string-switch")
        elif fm == 3:
            # struct-valued tag, switch with init and no tag
            p_ = u.lv("p")
            b("%s := §%s{%s}" % (p_, Sq, c(u, t, 1, 3)))
            b.open("switch %s {" % p_)
            b.mid("case §%s{1}:" % Sq)
            b(u.tr("1"))
            b.mid("case §%s{2}, §%s{3}:" % (Sq, Sq))
            b(u.tr("2"))
            b.close()
            b.open("switch a := %s.Area(); {" % p_)
            b.mid("case a > %s:" % c(u, t, 3, 5))
            b(u.tr("3", as_int("a", t)))
            b.mid("case a == 1:")
            b(u.tr("4"))
            b.mid("default:")
            b(u.tr("5", as_int("a", t)))
            b.close()
            u.feat("struct-switch", "switch-init-notag")
        elif fm == 4:
            # break / continue / labelled break from a switch inside loops
            lab = u.lv("L")
            b("%s:" % lab)
            b.open("for i := 0; i < %d; i++ {" % r.randint(3, 7))
            b.open("for j := 0; j < 3; j++ {")
            b.open("switch {")
            b.mid("case i == j:")
            b("continue")
            b.mid("case i+j == %d:" % r.randint(2, 5))
            b("break")
            b.mid("case i*j == %d:" % r.choice([2, 4, 6, 8]))
            b("continue %s" % lab)
            b.mid("case i > %d:" % r.randint(3, 5))
            b("break %s" % lab)
            b.mid("default:")
            b(u.tr("i", "j"))
            b.close()
            b(u.tr("i", "j", "1"))
            b.close()
            b.close()
            u.feat("switch-in-loops")
        elif fm == 5:
            # type switch on an interface type with shared binding and re-dispatch
            shapes = u.lv("shs")
            b("%s := []§%s{§%s{%s}, &§%s{%s}, nil, §%s{%s}}" % (shapes, Shape, Sq, c(u, t, 1, 5), Ci, c(u, t, 1, 5), Sq, c(u, t, 1, 5)))
            b.open("for i, sh := range %s {" % shapes)
            b.open("switch v := sh.(type) {")
            b.mid("case nil:")
            b(u.tr("i", "0"))
            b.mid("case §%s, *§%s:" % (Sq, Ci))
            x = u.lv("x")
            b("%s := v.Area()" % x)
            b(u.tr("i", "1", as_int(x, t)))
            b.close()
            b.open("switch sh.(type) {")
            b.mid("case interface{ Area() %s }:" % t)
            b(u.tr("i", "2"))
            b.mid("default:")
            b(u.tr("i", "3"))
            b.close()
            b.close()
            u.feat("typeswitch-shared-binding", "typeswitch-no-binding")
        else:
            # switch on a type-converted value with duplicates-free integer ranges and fallthrough chains
            b.open("for v := %s(0); v < 8; v++ {" % t)
            b.open("switch v % 8 {")
            b.mid("case 0:")
            b(u.tr("0"))
            b("fallthrough")
            b.mid("case 1:")
            b(u.tr("1"))
            b("fallthrough")
            b.mid("case 2:")
            b(u.tr("2"))
            b.mid("case 3, 4:")
            b.open("if v == 4 {")
            b("break")
            b.close()
            b(u.tr("3"))
            b("fallthrough")
            b.mid("default:")
            b(u.tr("9", as_int("v", t)))
            b.mid("case 7:")
            b(u.tr("7"))
            b.close()
            b.close()
            u.feat("fallthrough-chain")
        b.close()
    b.close()


# =================================================================================================
# pan: one intended fault per protected call, class of the recovered panic is printed

def k_pan(u):
    r = u.r
    t = pick_t(u)
    u.feat(t)
    L = u.lib
    tr_ = u.nm("Try")
    L("func %s(f func()) (cls string) {" % tr_)
    L("\tdefer func() {")
    L("\t\tr := recover()")
    L("\t\tif r != nil {")
    L("\t\t\tcls = ¤Cls(r)")
    L("\t\t}")
    L("\t}()")
    L("\tf()")
    L("\treturn \"ok\"")
    L("}")
    L()
    perr = u.nm("PErr")
    L("type %s struct{ Code int }" % perr)
    L()
    L("func (e *%s) Error() string { return \"perr\" + ¤Its(e.Code) }" % perr)
    L()
    deep = u.nm("Deep")
    L("func %s(n int, xs []%s) %s {" % (deep, t, t))
    L("\tdefer ¤Tr(%d, \"unwind\", n)" % u.uid)
    L("\tif n == 0 {")
    L("\t\treturn xs[len(xs)+¤Nk(0)]")
    L("\t}")
    L("\treturn %s(n-1, xs) + 1" % deep)
    L("}")
    L()
    b = u.body
    run_open(u)
    xs = u.lv("xs")
    b("%s := %s" % (xs, _slice_lit(u, t, r.randint(1, 4))))
    arr = u.lv("arr")
    b("%s := [3]%s{1, 2, 3}" % (arr, t))
    z = u.lv("z")
    b("%s := %s(¤Nk(0))" % (z, t))
    s = u.lv("s")
    b("%s := %s + \"abc\"" % (s, sc(u)))
    var_m = u.lv("nm")
    b("var %s map[string]int" % var_m)
    iv = u.lv("iv")
    b("var %s any = %s" % (iv, r.choice(["\"str\"", "3", "int8(3)", "nil"])))
    b("_, _, _, _, _, _ = %s, %s, %s, %s, %s, %s" % (xs, arr, z, s, var_m, iv))
    faults = [
        ("index-slice", ["x := %s[¤Nk(%d)]" % (xs, r.randint(4, 9)), u.tr(as_int("x", t))]),
        ("index-slice-neg", ["x := %s[¤Nk(-1)]" % xs, u.tr(as_int("x", t))]),
        ("index-array", ["x := %s[¤Nk(3)]" % arr, u.tr(as_int("x", t))]),
        ("index-string", ["x := %s[len(%s)+¤Nk(0)]" % (s, s), u.tr("int(x)")]),
        ("index-store", ["%s[¤Nk(7)] = 1" % xs]),
        ("divide", ["x := %s / %s" % (c(u, t, 1, 50), z), u.tr(as_int("x", t))]),
        ("modulo", ["x := %s %% %s" % (c(u, t, 1, 50), z), u.tr(as_int("x", t))]),
        ("nil-map", ["%s[\"k\"] = 1" % var_m]),
        ("assert", ["x := %s.(int16)" % iv, u.tr("int(x)")]),
        ("assert-iface", ["x := %s.(interface{ Foo() })" % iv, "_ = x"]),
        ("custom-string", ["panic(\"custom-\" + ¤Its(¤Nk(%d)))" % r.randint(0, 99)]),
        ("custom-int", ["panic(¤Nk(%d))" % r.randint(-9, 99)]),
        ("custom-error", ["panic(&§%s{%d})" % (perr, r.randint(0, 99))]),
        ("slice-bounds", ["y := %s[¤Nk(2):¤Nk(1)]" % xs, u.tr("len(y)")]),
        ("slice-bounds-cap", ["y := %s[:¤Nk(%d)]" % (xs, 50), u.tr("len(y)")]),
        ("deep", ["x := §%s(%d, %s)" % (deep, r.randint(1, 4), xs), u.tr(as_int("x", t))]),
        ("none", [u.tr("1")]),
        ("in-range", ["x := %s[¤Nk(0)] + %s[¤Nk(2)]" % (xs, arr), "y := %s / (%s + 1)" % (c(u, t, 1, 50), z), u.tr(as_int("x", t), as_int("y", t))]),
        ("neg-shift", ["sh := ¤Nk(-1)", "x := %s << sh" % c(u, t, 1, 5), u.tr(as_int("x", t))]),
        ("array-ptr-index", ["p := &%s" % arr, "x := p[¤Nk(5)]", u.tr(as_int("x", t))]),
        ("conv-slice-array", ["a := [4]%s(%s[:¤Nk(1)])" % (t, xs), u.tr(as_int("a[0]", t))]),
    ]
    r.shuffle(faults)
    for name, lines in faults[:r.randint(4, 8)]:
        u.feat("fault-" + name)
        cl = u.lv("cl")
        b.open("%s := §%s(func() {" % (cl, tr_))
        b(u.tr("0"))
        for ln in lines:
            b(ln)
        b(u.tr("2"))
        b.close("})")
        b(u.ts(cl))
    # the unit itself ends with a recovered panic: statements after the fault are not executed, defers run LIFO
    b.open("defer func() {")
    b("r := recover()")
    b(u.ts("¤Cls(r)"))
    b.close("}()")
    b("defer " + u.tr("5"))
    last = r.choice([f for f in faults if f[0] not in ("none", "in-range")])
    u.feat("final-" + last[0])
    for ln in last[1]:
        b(ln)
    b(u.tr("6"))
    b.close()


# =================================================================================================
# ptr: pointers

def k_ptr(u):
    r = u.r
    t = pick_t(u)
    u.feat(t)
    L = u.lib
    Nd = u.nm("Nd")
    L("type %s struct {" % Nd)
    L("\tV    %s" % t)
    L("\tNext *%s" % Nd)
    L("}")
    L()
    L("func (n *%s) Len() int {" % Nd)
    L("\tif n == nil {")
    L("\t\treturn 0")
    L("\t}")
    L("\treturn 1 + n.Next.Len()")
    L("}")
    L()
    L("func (n *%s) Sum() (s %s) {" % (Nd, t))
    L("\tfor p := n; p != nil; p = p.Next {")
    L("\t\ts += p.V")
    L("\t}")
    L("\treturn")
    L("}")
    L()
    mk, sw = u.nm("Mk"), u.nm("Swap")
    L("func %s(x %s) *%s {" % (mk, t, t))
    L("\tv := x * 2")
    L("\treturn &v")
    L("}")
    L()
    L("func %s(a, b *%s) { *a, *b = *b, *a }" % (sw, t))
    L()
    b = u.body
    run_open(u)
    forms = list(range(8))
    r.shuffle(forms)
    for fm in forms[:r.randint(4, 7)]:
        u.feat("ptr%d" % fm)
        b.open("{")
        if fm == 0:
            p1, p2 = u.lv("p"), u.lv("p")
            b("%s, %s := §%s(%s), §%s(%s)" % (p1, p2, mk, c(u, t, 1, 9), mk, c(u, t, 1, 9)))
            b("*%s += %s" % (p1, c(u, t, 1, 9)))
            b(u.tr(as_int("*" + p1, t), as_int("*" + p2, t), "¤Bi(%s == %s)" % (p1, p2), "¤Bi(%s != nil)" % p1))
            b("§%s(%s, %s)" % (sw, p1, p2))
            b(u.tr(as_int("*" + p1, t), as_int("*" + p2, t)))
            b("§%s(%s, %s)" % (sw, p1, p1))
            b(u.tr(as_int("*" + p1, t)))
        elif fm == 1:
            x = u.lv("x")
            pp, p_ = u.lv("pp"), u.lv("p")
            b("%s := %s" % (x, c(u, t, 1, 9)))
            b("%s := &%s" % (p_, x))
            b("%s := &%s" % (pp, p_))
            b("**%s += %s" % (pp, c(u, t, 1, 9)))
            y = u.lv("y")
            b("%s := %s" % (y, c(u, t, 20, 30)))
            b("*%s = &%s" % (pp, y))
            b("*%s += 1" % p_)
            b(u.tr(as_int(x, t), as_int(y, t), as_int("**" + pp, t)))
        elif fm == 2:
            hd = u.lv("hd")
            b("var %s *§%s" % (hd, Nd))
            b(u.tr("%s.Len()" % hd, as_int("%s.Sum()" % hd, t)))
            b.open("for k := 1; k <= %d; k++ {" % r.randint(1, 6))
            b("%s = &§%s{%s(k) * %s, %s}" % (hd, Nd, t, c(u, t, 1, 5), hd))
            b.close()
            ln, sm = u.lv("ln"), u.lv("sm")
            b("%s := %s.Len()" % (ln, hd))
            b("%s := %s.Sum()" % (sm, hd))
            b(u.tr(ln, as_int(sm, t)))
            # delete the second node through a pointer to pointer
            b.open("if %s.Next != nil {" % hd)
            b("pp := &%s.Next" % hd)
            b("*pp = (*pp).Next")
            b.close()
            b(u.tr("%s.Len()" % hd))
        elif fm == 3:
            arr = u.lv("arr")
            b("%s := [4]%s{%s}" % (arr, t, ", ".join(c(u, t, 1, 9) for _ in range(4))))
            pe, pa_ = u.lv("pe"), u.lv("pq")
            b("%s := &%s[%d]" % (pe, arr, r.randrange(4)))
            b("%s := &%s" % (pa_, arr))
            b("*%s += %s" % (pe, c(u, t, 10, 20)))
            b("%s[0], (*%s)[3] = %s[3], %s[0]" % (pa_, pa_, pa_, pa_))
            b(u.tr(*[as_int("%s[%d]" % (arr, j), t) for j in range(4)]))
            b(u.tr("len(%s)" % pa_, "cap(%s[1:3])" % pa_))
        elif fm == 4:
            sl = u.lv("sl")
            ps = u.lv("ps")
            b("%s := []%s{%s}" % (sl, t, c(u, t, 1, 9)))
            b("%s := &%s" % (ps, sl))
            b("*%s = append(*%s, %s, %s)" % (ps, ps, c(u, t, 1, 9), c(u, t, 1, 9)))
            b("(*%s)[0] += %s" % (ps, c(u, t, 10, 20)))
            b(u.tr("len(%s)" % sl, as_int(sl + "[0]", t), as_int("(*%s)[2]" % ps, t)))
        elif fm == 5:
            st = u.lv("st")
            b("%s := struct {" % st)
            b("\tA, B %s" % t)
            b("\tIn   struct{ C %s }" % t)
            b("}{A: %s, B: %s}" % (c(u, t, 1, 9), c(u, t, 1, 9)))
            pa_, pb_, pc_ = u.lv("pa_"), u.lv("pb_"), u.lv("pc_")
            b("%s, %s, %s := &%s.A, &%s.B, &%s.In.C" % (pa_, pb_, pc_, st, st, st))
            b("*%s, *%s = *%s+%s, *%s" % (pa_, pb_, pb_, c(u, t, 1, 9), pa_))
            b("*%s = *%s * *%s" % (pc_, pa_, pb_))
            cp = u.lv("cp")
            b("%s := %s" % (cp, st))
            b("*%s = 0" % pa_)
            b(u.tr(as_int(st + ".A", t), as_int(st + ".B", t), as_int(st + ".In.C", t), as_int(cp + ".A", t)))
        elif fm == 6:
            n1 = u.lv("n")
            b("%s := new(§%s)" % (n1, Nd))
            b("%s.V = %s" % (n1, c(u, t, 1, 9)))
            b("%s.Next = %s" % (n1, n1))         # cycle: walk with a bound
            k = u.lv("k")
            b("%s := 0" % k)
            b.open("for p := %s; p != nil && %s < 5; p = p.Next {" % (n1, k))
            b("%s++" % k)
            b("p.V++")
            b.close()
            b(u.tr(k, as_int(n1 + ".V", t), "¤Bi(%s.Next == %s)" % (n1, n1)))
            ip = u.lv("ip")
            b("%s := new(%s)" % (ip, t))
            b("*%s -= %s" % (ip, c(u, t, 1, 9)))
            b(u.tr(as_int("*" + ip, t)))
        else:
            # pointers stored in slices and maps; element update through them
            cells = u.lv("cells")
            b("%s := make([]*%s, 0)" % (cells, t))
            b.open("for k := 0; k < %d; k++ {" % r.randint(2, 5))
            b("v := %s(k)" % t)
            b("%s = append(%s, &v)" % (cells, cells))
            b.close()
            b.open("for _, p := range %s {" % cells)
            b("*p += %s" % c(u, t, 10, 20))
            b.close()
            byname = u.lv("bn")
            b("%s := map[string]*%s{\"first\": %s[0], \"again\": %s[0], \"last\": %s[len(%s)-1]}" % (byname, t, cells, cells, cells, cells))
            b("*%s[\"again\"] += 1" % byname)
            b(u.tr(as_int("*%s[0]" % cells, t), as_int("*%s[\"first\"]" % byname, t), as_int("*%s[\"last\"]" % byname, t),
                   "¤Bi(%s[\"first\"] == %s[\"again\"])" % (byname, byname)))
        b.close()
    b.close()


# =================================================================================================
# str: strings, bytes, runes (light; C05 covers them in depth)

def k_str(u):
    r = u.r
    u.feat("string")
    b = u.body
    run_open(u)
    s = u.lv("s")
    b("%s := %s + %s + %s" % (s, sc(u), sc(u), sc(u)))
    b(u.ts(s))
    forms = list(range(7))
    r.shuffle(forms)
    for fm in forms[:r.randint(3, 6)]:
        u.feat("str%d" % fm)
        b.open("{")
        if fm == 0:
            b.open("for i := 0; i < len(%s); i++ {" % s)
            b(u.tr("i", "int(%s[i])" % s))
            b.close()
        elif fm == 1:
            bs = u.lv("bs")
            b("%s := []byte(%s)" % (bs, s))
            b.open("for i := range %s {" % bs)
            b("%s[i] ^= 0x20" % bs)
            b.close()
            s2 = u.lv("s")
            b("%s := string(%s)" % (s2, bs))
            b.open("if len(%s) > 0 {" % bs)
            b("%s[0] = 'Q'" % bs)
            b.close()
            b(u.ts(s2, "string(%s)" % bs, s))
        elif fm == 2:
            rs = u.lv("rs")
            b("%s := []rune(%s)" % (rs, s))
            b(u.tr("len(%s)" % rs, "len(%s)" % s, "len(string(%s))" % rs))
            b.open("for i, j := 0, len(%s)-1; i < j; i, j = i+1, j-1 {" % rs)
            b("%s[i], %s[j] = %s[j], %s[i]" % (rs, rs, rs, rs))
            b.close()
            b(u.ts("string(%s)" % rs))
        elif fm == 3:
            acc = u.lv("acc")
            b("%s := \"\"" % acc)
            b.open("for i := 0; i < %d; i++ {" % r.randint(1, 6))
            b("%s += string(rune('a'+i)) + ¤Its(i)" % acc)
            b.close()
            b(u.ts(acc))
            b(u.ts("string(rune(¤Nk(%d)))" % r.choice([65, 233, 0x4e16, 0x1F600, -1, 0xD800, 0x110000, 0])))
        elif fm == 4:
            o = u.lv("o")
            b("%s := %s" % (o, sc(u)))
            b(u.tr("¤Bi(%s < %s)" % (s, o), "¤Bi(%s == %s)" % (s, o), "¤Bi(%s >= %s)" % (s, o), "¤Bi(%s+\"\" == %s)" % (s, s), "¤Bi(\"\" < %s)" % o))
        elif fm == 5:
            n = u.lv("n")
            b("%s := len(%s)" % (n, s))
            b(u.ts("%s[:%s/2]" % (s, n), "%s[%s/2:]" % (s, n), "%s[%s/3:%s-%s/3]" % (s, n, n, n), "%s[%s:]" % (s, n)))
        else:
            cnt = u.lv("cnt")
            b("%s := map[rune]int{}" % cnt)
            b.open("for _, ch := range %s {" % s)
            b("%s[ch]++" % cnt)
            b.close()
            b(u.tr("len(%s)" % cnt, "%s[0xFFFD]" % cnt, "%s['a']" % cnt))
        b.close()
    b.close()


# =================================================================================================
# dfr: defer basics (C04 covers panics/recover in depth); never inside range-over-func bodies

def k_dfr(u):
    r = u.r
    t = pick_t(u)
    u.feat(t)
    L = u.lib
    Ct = u.nm("Ct")
    L("type %s struct{ N %s }" % (Ct, t))
    L()
    L("func (c %s) Show(tag int) { ¤Tr(%d, \"show\", tag, int(c.N)) }" % (Ct, u.uid))
    L("func (c *%s) Add(d %s) { c.N += d; ¤Tr(%d, \"add\", int(c.N)) }" % (Ct, t, u.uid))
    L()
    b = W()
    forms = list(range(6))
    r.shuffle(forms)
    calls = []
    D = u.body
    for fm in forms[:r.randint(3, 5)]:
        u.feat("dfr%d" % fm)
        fn = u.nm("D")
        if fm == 0:
            D.open("func %s() {" % fn)
            D("x := %s" % c(u, t, 1, 9))
            D("defer ¤Tr(%d, \"arg-now\", int(x))" % u.uid)
            D("defer func() { ¤Tr(%d, \"closure-late\", int(x)) }()" % u.uid)
            D("x += %s" % c(u, t, 10, 20))
            D("¤Tr(%d, \"body\", int(x))" % u.uid)
            D.close()
            calls.append("%s()" % fn)
        elif fm == 1:
            D.open("func %s(n int) {" % fn)
            D.open("for i := 0; i < n; i++ {")
            D("defer ¤Tr(%d, \"loop\", i)" % u.uid)
            D.open("if i%2 == 0 {")
            D("defer func() { ¤Tr(%d, \"even\", i) }()" % u.uid)
            D.close()
            D.close()
            D("¤Tr(%d, \"end\", n)" % u.uid)
            D.close()
            calls.append("%s(%d)" % (fn, r.randint(0, 4)))
        elif fm == 2:
            D.open("func %s() (res %s) {" % (fn, t))
            D("defer func() { res *= %s }()" % c(u, t, 2, 3))
            D("defer func() { res += %s }()" % c(u, t, 1, 9))
            D("return %s" % c(u, t, 1, 9))
            D.close()
            calls.append("x := %s()\n\t%s" % (fn, u.tr(as_int("x", t))))
        elif fm == 3:
            D.open("func %s() {" % fn)
            D("cc := §%s{%s}" % (Ct, c(u, t, 1, 9)))
            D("defer cc.Show(1)")           # receiver copied now
            D("defer cc.Add(%s)" % c(u, t, 1, 9))  # &cc now, runs later
            D("cc.N = %s" % c(u, t, 50, 60))
            D("defer cc.Show(2)")
            D("cc.N++")
            D.close()
            calls.append("%s()" % fn)
        elif fm == 4:
            D.open("func %s() int {" % fn)
            D("r := recover()")         # not panicking: nil
            D("k := 0")
            D("defer func() { k++; ¤Tr(%d, \"k\", k) }()" % u.uid)
            D("func() {")
            D("\tdefer func() { k += 10 }()")
            D("\tk += 100")
            D("}()")
            D("return k + ¤Bi(r == nil)")
            D.close()
            calls.append("y := %s()\n\t%s" % (fn, u.tr("y")))
        else:
            D.open("func %s(a, b %s) (q %s, cls string) {" % (fn, t, t))
            D.open("defer func() {")
            D.open("if r := recover(); r != nil {")
            D("cls = ¤Cls(r)")
            D("q = %s" % c(u, t, 40, 50))
            D.close()
            D.close("}()")
            D("q = a / b")
            D("return q, \"fine\"")
            D.close()
            for den in (c(u, t, 1, 5), "%s(¤Nk(0))" % t):
                q, cl = u.lv("q"), u.lv("cl")
                calls.append("%s, %s := %s(%s, %s)\n\t%s\n\t%s" % (q, cl, fn, c(u, t, 10, 90), den, u.tr(as_int(q, t)), u.ts(cl)))
        D()
    D.open("func %sRun() {" % u.P)
    for cl in calls:
        for ln in cl.split("\n\t"):
            D(ln)
    D.close()


# =================================================================================================
# arr: arrays, slices of slices, keyed literals, builtins

def k_arr(u):
    r = u.r
    t = pick_t(u)
    u.feat(t)
    b = u.body
    run_open(u)
    forms = list(range(7))
    r.shuffle(forms)
    for fm in forms[:r.randint(3, 6)]:
        u.feat("arr%d" % fm)
        b.open("{")
        if fm == 0:
            R, C = r.randint(2, 3), r.randint(2, 3)
            g = u.lv("grid")
            b("var %s [%d][%d]%s" % (g, R, C, t))
            b.open("for i := range %s {" % g)
            b.open("for j := range %s[i] {" % g)
            b("%s[i][j] = %s(i*%d + j)" % (g, t, r.randint(3, 11)))
            b.close()
            b.close()
            tr_ = u.lv("tr")
            b("var %s [%d][%d]%s" % (tr_, C, R, t))
            b.open("for i, row := range %s {" % g)
            b.open("for j, v := range row {")
            b("%s[j][i] = v" % tr_)
            b.close()
            b.close()
            b(u.tr(*[as_int("%s[%d][%d]" % (tr_, j, i), t) for j in range(C) for i in range(R)]))
            b(u.tr("len(%s)" % g, "len(%s[0])" % g, "cap(%s[0][:1])" % g))
        elif fm == 1:
            a = u.lv("a")
            b("%s := [...]%s{%d: %s, %d: %s, %s}" % (a, t, 2, c(u, t, 1, 9), 5, c(u, t, 1, 9), c(u, t, 1, 9)))
            b(u.tr("len(%s)" % a, *[as_int("%s[%d]" % (a, j), t) for j in range(7)]))
            sl = u.lv("sl")
            b("%s := []string{3: \"x\", 1: \"y\"}" % sl)
            b(u.tr("len(%s)" % sl))
            b(u.ts(*["%s[%d]" % (sl, j) for j in range(4)]))
        elif fm == 2:
            rag = u.lv("rag")
            b("%s := [][]%s{}" % (rag, t))
            b.open("for i := 0; i < %d; i++ {" % r.randint(1, 4))
            b("row := make([]%s, i)" % t)
            b.open("for j := range row {")
            b("row[j] = %s(i + j)" % t)
            b.close()
            b("%s = append(%s, row)" % (rag, rag))
            b.close()
            tot = u.lv("tot")
            b("%s := %s(0)" % (tot, t))
            b.open("for _, row := range %s {" % rag)
            b.open("for _, v := range row {")
            b("%s += v" % tot)
            b.close()
            b.close()
            b(u.tr(as_int(tot, t), "len(%s)" % rag))
        elif fm == 3:
            a = u.lv("a")
            b("%s := [6]%s{%s}" % (a, t, ", ".join(c(u, t, 1, 9) for _ in range(6))))
            s1, s2 = u.lv("s"), u.lv("s")
            b("%s := %s[1:4]" % (s1, a))
            b("%s := %s[2:3:4]" % (s2, a))
            b("%s[0] += %s" % (s1, c(u, t, 10, 20)))
            b("%s = append(%s, %s)" % (s2, s2, c(u, t, 30, 40)))     # fits (cap 2): writes a[3]
            b("%s = append(%s, %s)" % (s2, s2, c(u, t, 50, 60)))     # exceeds cap: copies
            b("%s[0] = %s" % (s2, c(u, t, 70, 80)))
            b(u.tr(*[as_int("%s[%d]" % (a, j), t) for j in range(6)]))
            b(u.tr("len(%s)" % s1, "cap(%s)" % s1, "len(%s)" % s2, as_int(s2 + "[0]", t)))
            n = u.lv("n")
            b("%s := copy(%s[:], %s[2:])" % (n, a, a))
            b(u.tr(n, *[as_int("%s[%d]" % (a, j), t) for j in range(6)]))
        elif fm == 4:
            x, y, z = c(u, t, 0, 99), c(u, t, 0, 99), c(u, t, 0, 99)
            vx, vy, vz = u.lv("x"), u.lv("y"), u.lv("z")
            b("%s, %s, %s := %s, %s, %s" % (vx, vy, vz, x, y, z))
            b(u.tr(as_int("min(%s, %s, %s)" % (vx, vy, vz), t), as_int("max(%s, %s)" % (vx, vy), t), as_int("max(%s, %s, %s)" % (vz, vy, vx), t)))
            b(u.ts("min(%s, %s)" % (sc(u), sc(u)), "max(%s, \"m\", %s)" % (sc(u), sc(u))))
            cl = u.lv("cl")
            b("%s := %s" % (cl, _slice_lit(u, t, r.randint(1, 4))))
            b("clear(%s)" % cl)
            mm = u.lv("mm")
            b("%s := map[int]int{1: 1, 2: 2}" % mm)
            b("clear(%s)" % mm)
            b(u.tr("len(%s)" % cl, as_int(cl + "[0]", t), "len(%s)" % mm))
            u.feat("builtin-min-max-clear")
        elif fm == 5:
            Pt = "struct{ X, Y %s }" % t
            ps = u.lv("ps")
            b("%s := [3]%s{{1, 2}, {Y: %s}, {}}" % (ps, Pt, c(u, t, 1, 9)))
            b.open("for i := range %s {" % ps)
            b("%s[i].X += %s(i)" % (ps, t))
            b.close()
            q = u.lv("q")
            b("%s := %s[%d]" % (q, ps, r.randrange(3)))
            b("%s.Y += %s" % (q, c(u, t, 10, 20)))
            b(u.tr(*[as_int("%s[%d].%s" % (ps, j, f), t) for j in range(3) for f in ("X", "Y")]))
            b(u.tr(as_int(q + ".Y", t)))
        else:
            # index expressions computed and reduced into range
            a = u.lv("a")
            n = r.randint(3, 7)
            b("%s := make([]%s, %d)" % (a, t, n))
            b.open("for i := 0; i < %d; i++ {" % r.randint(5, 15))
            b("%s[(i*%d+%d)%%%d] += %s(i)" % (a, r.randint(2, 5), r.randint(0, 5), n, t))
            b("%s[¤Ix(i*i-%d, len(%s))] ^= %s" % (a, r.randint(0, 30), a, c(u, t, 1, 99)))
            b.close()
            b(u.tr(*[as_int("%s[%d]" % (a, j), t) for j in range(n)]))
        b.close()
    b.close()


# =================================================================================================
# fnv: function values, named function types, package-level variables

def k_fnv(u):
    r = u.r
    t = pick_t(u)
    u.feat(t)
    L = u.lib
    Op, Cnt, Tab, Reg = u.nm("Op"), u.nm("Cnt"), u.nm("Tab"), u.nm("Reg")
    L("type %s func(%s, %s) %s" % (Op, t, t, t))
    L()
    L("func (o %s) Twice(a, b %s) %s { return o(o(a, b), b) }" % (Op, t, t))
    L()
    L("var %s %s = %s" % (Cnt, t, c(u, t, 1, 9)))
    L()
    L("var %s = map[string]%s{" % (Tab, Op))
    L("\t\"add\": func(a, b %s) %s { return a + b }," % (t, t))
    L("\t\"sub\": func(a, b %s) %s { return a - b }," % (t, t))
    L("\t\"cnt\": func(a, b %s) %s { %s++; return a*b + %s }," % (t, t, Cnt, Cnt))
    L("}")
    L()
    L("func %s(name string, f %s) { %s[name] = f }" % (Reg, Op, Tab))
    L()
    comp = u.nm("Comp")
    L("func %s(fs ...func(%s) %s) func(%s) %s {" % (comp, t, t, t, t))
    L("\treturn func(x %s) %s {" % (t, t))
    L("\t\tfor _, f := range fs {")
    L("\t\t\tif f != nil {")
    L("\t\t\t\tx = f(x)")
    L("\t\t\t}")
    L("\t\t}")
    L("\t\treturn x")
    L("\t}")
    L("}")
    L()
    b = u.body
    run_open(u)
    forms = list(range(6))
    r.shuffle(forms)
    for fm in forms[:r.randint(3, 6)]:
        u.feat("fnv%d" % fm)
        b.open("{")
        if fm == 0:
            for name in r.sample(["add", "sub", "cnt", "cnt", "nope"], 4):
                f, ok = u.lv("f"), u.lv("ok")
                b("%s, %s := §%s[\"%s\"]" % (f, ok, Tab, name))
                b.open("if %s && %s != nil {" % (ok, f))
                x = u.lv("x")
                b("%s := %s(%s, %s)" % (x, f, c(u, t, 1, 9), c(u, t, 1, 9)))
                b(u.tr(as_int(x, t), as_int("§" + Cnt, t)))
                b.mid("} else {")
                b(u.tr("-1", "¤Bi(%s == nil)" % f))
                b.close()
        elif fm == 1:
            b("§%s(\"mul\", func(a, b %s) %s { return a * b })" % (Reg, t, t))
            x = u.lv("x")
            b("%s := §%s[\"mul\"].Twice(%s, %s)" % (x, Tab, c(u, t, 1, 5), c(u, t, 1, 5)))
            y = u.lv("y")
            b("%s := §%s(func(a, b %s) %s { return a - b }).Twice(%s, %s)" % (y, Op, t, t, c(u, t, 1, 50), c(u, t, 1, 9)))
            b(u.tr(as_int(x, t), as_int(y, t), "len(§%s)" % Tab))
            u.feat("method-on-func-type")
        elif fm == 2:
            inc = u.lv("inc")
            b("%s := func(x %s) %s { return x + %s }" % (inc, t, t, c(u, t, 1, 9)))
            var_nil = u.lv("nf")
            b("var %s func(%s) %s" % (var_nil, t, t))
            f = u.lv("f")
            b("%s := §%s(%s, %s, func(x %s) %s { return x * %s }, %s)" % (f, comp, inc, var_nil, t, t, c(u, t, 2, 3), inc))
            x = u.lv("x")
            b("%s := %s(%s)" % (x, f, c(u, t, 1, 9)))
            g = u.lv("g")
            b("%s := §%s()" % (g, comp))
            y = u.lv("y")
            b("%s := %s(%s)" % (y, g, c(u, t, 1, 9)))
            b(u.tr(as_int(x, t), as_int(y, t), "¤Bi(%s == nil)" % var_nil, "¤Bi(%s != nil)" % f))
        elif fm == 3:
            b("§%s = %s" % (Cnt, c(u, t, 20, 30)))
            p_ = u.lv("p")
            b("%s := &§%s" % (p_, Cnt))
            x = u.lv("x")
            b("%s := §%s[\"cnt\"](%s, %s)" % (x, Tab, c(u, t, 1, 5), c(u, t, 1, 5)))
            b("*%s += %s" % (p_, c(u, t, 1, 9)))
            b(u.tr(as_int(x, t), as_int("§" + Cnt, t)))
            u.feat("package-var")
        elif fm == 4:
            sel = u.lv("sel")
            b("%s := func(k int) func(%s) %s {" % (sel, t, t))
            b("\tswitch k % 3 {")
            b("\tcase 0:")
            b("\t\treturn func(x %s) %s { return x + %s }" % (t, t, c(u, t, 1, 9)))
            b("\tcase 1:")
            b("\t\treturn func(x %s) %s { return x * %s }" % (t, t, c(u, t, 2, 3)))
            b("\t}")
            b("\treturn nil")
            b("}")
            b.open("for k := 0; k < %d; k++ {" % r.randint(3, 6))
            b.open("if f := %s(k); f != nil {" % sel)
            x = u.lv("x")
            b("%s := f(%s(k))" % (x, t))
            b(u.tr("k", as_int(x, t)))
            b.mid("} else {")
            b(u.tr("k", "-1"))
            b.close()
            b.close()
        else:
            # array of function values incl. method values/expressions and a generic instance
            x0 = u.lv("o")
            b("%s := §%s(func(a, b %s) %s { return a ^ b })" % (x0, Op, t, t))
            fs = u.lv("fs")
            b("%s := [...]func(%s, %s) %s{%s, %s.Twice, §%s[\"add\"], §%s.Twice(%s)}" % (
                fs, t, t, t, x0, x0, Tab, Op, "nil" if False else x0) if False else
              "%s := [...]func(%s, %s) %s{%s, %s.Twice, §%s[\"add\"]}" % (fs, t, t, t, x0, x0, Tab))
            b.open("for j, f := range %s {" % fs)
            x = u.lv("x")
            b("%s := f(%s, %s)" % (x, c(u, t, 1, 99), c(u, t, 1, 99)))
            b(u.tr("j", as_int(x, t)))
            b.close()
        b.close()
    b.close()


# =================================================================================================
# cst: constants, iota, untyped constant arithmetic

def k_cst(u):
    r = u.r
    t = pick_t(u)
    u.feat(t)
    L = u.lib
    Col = u.nm("Col")
    P = u.P
    L("type %s %s" % (Col, t))
    L()
    names = ["%sRed" % P, "%sGreen" % P, "%sBlue" % P, "%sAlpha" % P]
    k = r.randrange(3)
    L("const (")
    if k == 0:
        L("\t%s %s = iota" % (names[0], Col))
        L("\t%s" % names[1])
        L("\t_")
        L("\t%s" % names[2])
        L("\t%s = %s(iota * 10)" % (names[3], Col))
    elif k == 1:
        L("\t%s %s = 1 << iota" % (names[0], Col))
        L("\t%s" % names[1])
        L("\t%s" % names[2])
        L("\t%s = %s | %s" % (names[3], names[0], names[2]))
    else:
        L("\t%s %s = iota + %d" % (names[0], Col, r.randint(1, 5)))
        L("\t%s" % names[1])
        L("\t%s = %s(iota * iota)" % (names[2], Col))
        L("\t%s" % names[3])
    L(")")
    L()
    L("func (c %s) String() string {" % Col)
    for n in names[:3]:
        L("\tif c == %s {" % n)
        L("\t\treturn \"%s\"" % n[len(P):])
        L("\t}")
    L("\treturn \"Col(\" + ¤Its(int(c)) + \")\"")
    L("}")
    L()
    big = u.nm("Big")
    L("const %s = 1 << 100" % big)
    L("const %sMask = %s>>%d - 1" % (big, big, r.randint(90, 98)))
    L("const %sS = \"const\" + \"ant\"" % big)
    L()
    b = u.body
    run_open(u)
    b(u.tr(*["int(§%s)" % n for n in names]))
    b(u.ts(*["§%s.String()" % n for n in names]))
    b(u.tr("§%sMask" % big, "len(§%sS)" % big, "int(§%s >> 98)" % big))
    x = u.lv("x")
    b("%s := §%s(¤Nk(%d))" % (x, Col, r.randint(0, 4)))
    b.open("for k := 0; k < 4; k++ {")
    b(u.ts("%s.String()" % x))
    b("%s++" % x)
    b.close()
    var_i = u.lv("iv")
    b("var %s interface{ String() string } = §%s" % (var_i, names[1]))
    b(u.ts("%s.String()" % var_i))
    b("const local = 'a' + 1.0*2")
    b("const huge = 1e30 / 1e28")
    b(u.tr("local", "huge", "len(\"\\u00e9\")", "int(uint8(255) + uint8(¤Nk(1)))", "7 / 2 * 2", "int(7.0 / 2.0 * 2)", "-7 % 3", "-7 / 2"))
    b.close()


# =================================================================================================
# lbl: labelled break / continue / goto in nested loops

def k_lbl(u):
    r = u.r
    u.feat("labels")
    b = u.body
    run_open(u)
    n, m = r.randint(2, 5), r.randint(2, 5)
    a, bb, cc = r.randint(1, 6), r.randint(1, 6), r.randint(2, 8)
    b("Outer:")
    b.open("for i := 0; i < %d; i++ {" % n)
    b("Mid:")
    b.open("for j := 0; j < %d; j++ {" % m)
    b.open("for k := 0; k < 3; k++ {")
    b.open("switch {")
    b.mid("case i+j+k == %d:" % a)
    b("continue Mid")
    b.mid("case i*j == %d && k == 1:" % bb)
    b("continue Outer")
    b.mid("case i+j*k == %d:" % cc)
    b("break Mid")
    b.mid("case i == %d && j == %d:" % (n - 1, m - 1))
    b("break Outer")
    b.close()
    b(u.tr("i", "j", "k"))
    b.close()
    b(u.tr("i", "j", "-1"))
    b.close()
    b(u.tr("i", "-1", "-1"))
    b.close()
    # goto state machine
    st, steps = u.lv("st"), u.lv("steps")
    b("%s, %s := %d, 0" % (st, steps, r.randint(0, 3)))
    b("Again:")
    b("%s++" % steps)
    b.open("if %s > %d {" % (steps, r.randint(5, 12)))
    b("goto Done")
    b.close()
    b.open("switch %s {" % st)
    b.mid("case 0:")
    b("%s = %d" % (st, r.randint(1, 3)))
    b("goto Again")
    b.mid("case 1:")
    b("%s = %d" % (st, r.randint(0, 3)))
    b(u.tr(st, steps))
    b("goto Again")
    b.mid("case 2:")
    b("%s += %d" % (st, r.randint(1, 2)))
    b("goto Again")
    b.close()
    b(u.tr(st, steps, "77"))
    b("Done:")
    b(u.tr(st, steps))
    # labelled continue in range loops with a select-free labelled block
    b("Blk:")
    b.open("switch {")
    b.mid("default:")
    b.open("for i := range %d {" % r.randint(2, 6))
    b.open("if i == %d {" % r.randint(1, 4))
    b("break Blk")
    b.close()
    b(u.tr("i"))
    b.close()
    b(u.tr("88"))
    b.close()
    b.close()


# =================================================================================================
# zlp: every execution of a variable declaration creates a fresh zero value (locals declared in loop bodies,
# in goto re-entered regions and in loops inside closures, written only partially, read in a later iteration)

def k_zlp(u):
    r = u.r
    u.feat("zero-per-iteration")
    b = u.body
    T = u.nm("Acc")
    u.lib("type %s struct {\n\tSum, Cnt int\n\tTag string\n\tCells [3][2]int\n}" % T)
    run_open(u)
    n = r.randint(3, 6)
    k = r.randint(3, 5)
    # array local in a loop
    b.open("for i := 0; i < %d; i++ {" % n)
    b("var h [%d]int" % k)
    b.open("if i%%%d != %d {" % (r.randint(2, 3), r.randint(0, 1)))
    b("h[i%%%d] += i + %d" % (k, r.randint(1, 9)))
    b.close()
    b(u.tr("i", *["h[%d]" % j for j in range(min(k, 4))]))
    b.close()
    # struct local, partially written
    b.open("for i := range %d {" % n)
    b("var a §%s" % T)
    b.open("switch i % 3 {")
    b.mid("case 0:")
    b("a.Sum = i + %d" % r.randint(10, 99))
    b('a.Tag = %s' % sc(u))
    b.mid("case 1:")
    b("a.Cnt = i")
    b("a.Cells[i%%3][1] = %d" % r.randint(1, 50))
    b.close()
    b(u.tr("i", "a.Sum", "a.Cnt", "len(a.Tag)", "a.Cells[1][1]", "a.Cells[0][0]"))
    b(u.ts("a.Tag"))
    b.close()
    # goto re-entered region
    gi = u.lv("gi")
    b("%s := 0" % gi)
    b("Again:")
    b.open("{")
    b("var g [2]§%s" % T)
    b.open("if %s%%2 == 0 {" % gi)
    b("g[%s%%2].Sum = %s + %d" % (gi, gi, r.randint(100, 200)))
    b.close()
    b(u.tr(gi, "g[0].Sum", "g[1].Sum", "g[0].Cnt"))
    b("%s++" % gi)
    b.open("if %s < %d {" % (gi, r.randint(3, 5)))
    b("goto Again")
    b.close()
    b.close()
    # loop inside a closure, with a closure-captured counter
    tot = u.lv("tot")
    b("%s := 0" % tot)
    b.open("func() {")
    b.open("for j := 0; j < %d; j++ {" % n)
    b("var w [3]int")
    b.open("if j%2 == 1 {")
    b("w[j%3] = j*7 + 1")
    b.close()
    b("%s += w[0] + w[1]*10 + w[2]*100" % tot)
    b(u.tr("j", "w[0]", "w[1]", "w[2]", tot))
    b.close()
    b.close("}()")
    b.close()


# =================================================================================================
# ncl: closures nested two levels deep inside same-named methods of different receiver types (link names of
# nested closures must keep the receiver of the enclosing method)

def k_ncl(u):
    r = u.r
    u.feat("nested-closure-same-method-name")
    A, B, C = u.nm("Ta"), u.nm("Tb"), u.nm("Tc")
    ka, kb, kc = r.randint(2, 9), r.randint(11, 19), r.randint(21, 29)
    for T, kk, ptr in ((A, ka, False), (B, kb, True), (C, kc, False)):
        rc = "*" + T if ptr else T
        u.lib("type %s struct{ V int }" % T)
        u.lib.open("func (t %s) Each(n int) int {" % rc)
        u.lib("s := 0")
        u.lib.open("func() {")
        u.lib.open("for i := 0; i < n; i++ {")
        u.lib.open("func() {")
        u.lib("s += t.V*%d + i" % kk)
        u.lib.close("}()")
        u.lib.close()
        u.lib.close("}()")
        u.lib("return s")
        u.lib.close()
        u.lib.open("func (t %s) Twice() func() func() int {" % rc)
        u.lib.open("return func() func() int {")
        u.lib("return func() int { return t.V * %d }" % (kk + 100))
        u.lib.close()
        u.lib.close()
    b = u.body
    run_open(u)
    order = [(A, False), (B, True), (C, False)]
    r.shuffle(order)
    for T, ptr in order:
        x = u.lv("x")
        b("%s := %s§%s{V: %d}" % (x, "&" if ptr else "", T, r.randint(1, 9)))
        b(u.tr("%s.Each(%d)" % (x, r.randint(1, 4)), "%s.Twice()()()" % x))
    b.close()


KINDS = ["ctl", "rng", "masg", "fun", "clo", "mval", "emb", "dyn", "gen", "cpy", "eq", "tsw", "pan", "ptr", "str", "dfr", "arr", "fnv", "cst", "lbl", "zlp", "ncl"]
# relative weights: control flow / closures / dispatch get more units than the light kinds
WEIGHT = {"ctl": 3, "rng": 2, "clo": 2, "gen": 2, "dyn": 2, "masg": 2, "fun": 2, "mval": 2, "emb": 2, "cpy": 2, "eq": 2}
BUILDERS = {}


def build(u, kind):
    BUILDERS[kind](u)


for _k in list(globals()):
    if _k.startswith("k_"):
        BUILDERS[_k[2:]] = globals()[_k]

"""C07 leg (b): generator of multi-package Go programs that print the run-time type-identity
matrix (x.(T) ok-bits, type-switch arms, ==, map[any] hits) and the (concrete type, interface)
satisfaction / dispatch table.  Pure function of (seed, index, flags); standard library only.

Layout of a generated module `vmod`:
    g/          generic origins (G, H, S), generic function with a function-local type
    pa/  pb/  sub/pa/   (imported as pa, pb, pc; pc's package NAME is also `pa`)
                named types with the same names in every package, aliases, unit functions
    main.go     collects ([]any, []func(any) bool) from every unit and prints the matrices

A unit is `func Uk() ([]any, []func(any) bool)`: boxed zero values and, for each, a closure that
performs `_, ok := x.(T)` at the place where T can be denoted (needed for unexported names and
function-local types).
"""
import random

PKGS = ["pa", "pb", "pc"]
PATH = {"g": "vmod/g", "pa": "vmod/pa", "pb": "vmod/pb", "pc": "vmod/sub/pa"}
DIR = {"g": "g", "pa": "pa", "pb": "pb", "pc": "sub/pa"}
CLAUSE = {"g": "g", "pa": "pa", "pb": "pb", "pc": "pa"}
ORDER = {"g": 0, "pa": 1, "pb": 2, "pc": 3, "main": 4}

BASICS = ["bool", "int", "int8", "int16", "int32", "int64", "uint", "uint8", "uint16", "uint32", "uint64",
          "uintptr", "float32", "float64", "complex64", "complex128", "string", "byte", "rune"]
LEAVES = ["T", "U", "t", "V", "I", "J", "A", "a", "B"]
ALIAS = {"A": "T", "a": "t"}
IFACE_LEAVES = ("I", "J")
FNAMES = ["A", "B", "a", "b", "X", "x"]
TAGS = ["", "", "", 'json:"x"', 'json:"y"', "x"]
MNAMES = ["M", "N", "m", "n", "String"]
PNAMES = ["", "", "a", "b", "_"]
GENERICS = [("g", "G", 1), ("g", "H", 2), ("g", "S", 1), ("pa", "E", 1), ("pb", "E", 1), ("pc", "E", 1)]

LEAF_DECLS = """type T int
type U struct {
	A int
	b string
}
type t int
type V float64
type I interface{ M() int }
type J interface {
	M() int
	m() int
}
type A = T
type a = t
type B = struct{ X int }
type E[X any] struct{ x X }

const Use = 0
"""

G_SRC = """package g

type G[X any] struct{ F X }
type H[K comparable, V any] map[K]V
type S[X any] []X

const Use = 0

// Loc declares a function-local type inside a generic function: every instantiation has its own L.
func Loc[X any]() (vs []any, fs []func(any) bool) {
	type L struct{ x X }
	var v L
	vs = append(vs, v)
	fs = append(fs, func(x any) bool { _, ok := x.(L); return ok })
	var w []L
	vs = append(vs, w)
	fs = append(fs, func(x any) bool { _, ok := x.([]L); return ok })
	return
}

// LocB is Loc without closures inside the generic function: it returns the zero values of its
// local types and tells whether x has the k-th of them as dynamic type.
func LocB[X any](x any, k int) (vs []any, ok bool) {
	type L struct{ x X }
	vs = append(vs, L{}, []L(nil))
	if k == 0 {
		_, ok = x.(L)
	} else {
		_, ok = x.([]L)
	}
	return
}
"""


class Undenotable(Exception):
    pass


def exported(name):
    return name[:1].isupper()


# ---------------------------------------------------------------- descriptions

def B(name):
    return {"k": "basic", "name": name}


def leaf(pkg, name):
    return {"k": "leaf", "pkg": pkg, "name": name}


def clone(d):
    if isinstance(d, dict):
        return {k: clone(v) for k, v in d.items()}
    if isinstance(d, list):
        return [clone(x) for x in d]
    if isinstance(d, tuple):
        return tuple(clone(x) for x in d)
    return d


def nodes(d, out):
    out.append(d)
    k = d["k"]
    if k in ("ptr", "slice", "array", "chan"):
        nodes(d["elem"], out)
    elif k == "map":
        nodes(d["key"], out)
        nodes(d["elem"], out)
    elif k == "func":
        for p in d["params"] + d["results"]:
            nodes(p[1], out)
    elif k == "struct":
        for f in d["fields"]:
            nodes(f["typ"], out)
    elif k == "iface":
        for m in d["methods"]:
            nodes(m[1], out)
    elif k == "inst":
        for a in d["targs"]:
            nodes(a, out)


def comparable(d):
    k = d["k"]
    if k in ("basic", "ptr", "chan", "iface", "leaf", "local"):
        return True
    if k in ("slice", "map", "func"):
        return False
    if k == "array":
        return comparable(d["elem"])
    if k == "struct":
        return all(comparable(f["typ"]) for f in d["fields"])
    if k == "inst":
        if d["origin"][1] in ("G", "E"):
            return comparable(d["targs"][0])
        return False
    return False


class Gen:
    def __init__(self, rng, avoid):
        self.r = rng
        self.avoid = avoid  # set-like list of strings: tags, targs, emb
        self.in_targ = 0

    def pick(self, xs):
        return xs[self.r.randrange(len(xs))]

    def basic(self):
        if self.in_targ and "targs" in self.avoid:
            return B(self.pick(BASICS[:17]))
        return B(self.pick(BASICS))

    def typ(self, depth, cmp=False, ctx="pa"):
        while True:
            c = self.r.randrange(14 if depth > 0 else 3)
            if self.in_targ and "targs" in self.avoid and c in (8, 9, 10, 11):
                continue
            if c == 0 or c == 13:
                return self.basic()
            if c in (1, 2):
                p = self.pick(PKGS)
                n = self.pick(LEAVES)
                if (not exported(n) and p != ctx) or ORDER[p] > ORDER[ctx]:
                    continue
                return leaf(p, n)
            if c == 3:
                return {"k": "ptr", "elem": self.typ(depth - 1, False, ctx)}
            if c == 4:
                if cmp:
                    continue
                return {"k": "slice", "elem": self.typ(depth - 1, False, ctx)}
            if c == 5:
                return {"k": "array", "n": self.r.randrange(4), "elem": self.typ(depth - 1, cmp, ctx)}
            if c == 6:
                if cmp:
                    continue
                return {"k": "map", "key": self.typ(depth - 1, True, ctx), "elem": self.typ(depth - 1, False, ctx)}
            if c == 7:
                return {"k": "chan", "dir": self.r.randrange(3), "elem": self.typ(depth - 1, False, ctx)}
            if c in (8, 9):
                return self.struct(depth, cmp, ctx)
            if c == 10:
                if cmp:
                    continue
                return self.func(depth, ctx)
            if c == 11:
                return self.iface(depth, ctx)
            if c == 12:
                o = self.pick(GENERICS)
                if ORDER[o[0]] > ORDER[ctx]:
                    continue
                if cmp and o[1] not in ("G", "E"):
                    continue
                self.in_targ += 1
                if o[1] == "H":
                    targs = [self.typ(depth - 1, True, ctx), self.typ(depth - 1, False, ctx)]
                else:
                    targs = [self.typ(depth - 1, cmp, ctx)]
                self.in_targ -= 1
                return {"k": "inst", "origin": (o[0], o[1]), "targs": targs}

    def struct(self, depth, cmp, ctx):
        fields = []
        used = []
        for _ in range(self.r.randrange(4)):
            if self.r.randrange(4) == 0:
                if self.r.randrange(5) == 0:
                    b = self.pick(BASICS)
                    if "emb" in self.avoid and b in ("byte", "rune"):
                        continue
                    f = {"name": b, "typ": B(b), "emb": True}
                else:
                    p, n = self.pick(PKGS), self.pick(LEAVES)
                    if (not exported(n) and p != ctx) or ORDER[p] > ORDER[ctx]:
                        continue
                    if "emb" in self.avoid and n in ALIAS:
                        continue
                    f = {"name": n, "typ": leaf(p, n), "emb": True}
                    if n not in IFACE_LEAVES and self.r.randrange(3) == 0:
                        f["typ"] = {"k": "ptr", "elem": f["typ"]}
            else:
                f = {"name": self.pick(FNAMES), "typ": self.typ(depth - 1, cmp, ctx), "emb": False}
            if f["name"] in used:
                continue
            used.append(f["name"])
            f["tag"] = self.pick(TAGS)
            fields.append(f)
        return {"k": "struct", "fields": fields}

    def plist(self, depth, n, ctx):
        return [(self.pick(PNAMES), self.typ(depth - 1, False, ctx)) for _ in range(n)]

    def func(self, depth, ctx):
        d = {"k": "func", "params": self.plist(depth, self.r.randrange(3), ctx),
             "results": self.plist(depth, self.r.randrange(3), ctx), "variadic": False}
        if d["params"] and self.r.randrange(3) == 0:
            n, _ = d["params"][-1]
            d["params"][-1] = (n, {"k": "slice", "elem": self.typ(depth - 1, False, ctx)})
            d["variadic"] = self.r.randrange(2) == 0
        return d

    def iface(self, depth, ctx):
        ms = []
        used = []
        for _ in range(self.r.randrange(4)):
            n = self.pick(MNAMES)
            if n in used:
                continue
            used.append(n)
            ms.append((n, self.func(depth - 1, ctx)))
        return {"k": "iface", "methods": ms}

    # ------------------------------------------------------------ one-attribute mutations
    def other(self, cur, pool):
        for _ in range(20):
            s = self.pick(pool)
            if s != cur:
                return s
        return cur

    def mutate(self, orig, ctx):
        for _ in range(40):
            d = clone(orig)
            ns = []
            nodes(d, ns)
            x = self.pick(ns)
            kind = self.mut_node(x, ctx)
            if not kind:
                continue
            if "tags" in self.avoid and kind == "struct:tag":
                continue
            if not valid(d, ctx, self.avoid):
                continue
            return d, kind
        return None, None

    def mut_node(self, x, ctx):
        r = self.r
        k = x["k"]
        if k == "basic":
            x["name"] = self.other(x["name"], BASICS)
            return "basic:kind"
        if k == "leaf":
            c = r.randrange(3)
            if c == 0:
                p = self.other(x["pkg"], PKGS)
                x["pkg"] = p
                return "leaf:same-name-other-pkg"
            if c == 1:
                inv = {"T": "A", "t": "a"}
                if x["name"] in ALIAS:
                    x["name"] = ALIAS[x["name"]]
                    return "leaf:alias"
                if x["name"] in inv:
                    x["name"] = inv[x["name"]]
                    return "leaf:alias"
                return None
            x["name"] = self.other(x["name"], LEAVES)
            return "leaf:other"
        if k == "ptr":
            if r.randrange(2) == 0:
                e = x["elem"]
                x.clear()
                x.update(e)
                return "ptr:remove"
            x["elem"] = {"k": "ptr", "elem": x["elem"]}
            return "ptr:add"
        if k == "slice":
            c = r.randrange(3)
            if c == 0:
                x["k"], x["n"] = "array", r.randrange(3)
                return "slice:to-array"
            if c == 1:
                x["k"] = "ptr"
                return "slice:to-ptr"
            x["k"], x["dir"] = "chan", r.randrange(3)
            return "slice:to-chan"
        if k == "array":
            if r.randrange(3) == 0:
                x["k"] = "slice"
                return "array:to-slice"
            x["n"] = x["n"] + 1 + r.randrange(2)
            if r.randrange(4) == 0:
                x["n"] = x["n"] * 10 + 1
            return "array:len"
        if k == "map":
            if r.randrange(2) == 0 and comparable(x["elem"]):
                x["key"], x["elem"] = x["elem"], x["key"]
                return "map:swap-key-elem"
            x["k"] = "slice"
            del x["key"]
            return "map:to-slice"
        if k == "chan":
            x["dir"] = (x["dir"] + 1 + r.randrange(2)) % 3
            return "chan:dir"
        if k == "func":
            c = r.randrange(7)
            if c == 0:
                x["variadic"] = not x["variadic"]
                return "func:variadic"
            if c == 1:
                if x["variadic"]:
                    return None
                x["params"].append(("", self.typ(0, False, ctx)))
                return "func:add-param"
            if c == 2:
                x["results"].append(("", self.typ(0, False, ctx)))
                return "func:add-result"
            if c == 3:
                if not x["params"] or x["variadic"]:
                    return None
                x["results"].insert(0, x["params"].pop())
                return "func:param-to-result"
            if c == 4:
                if len(x["params"]) < 2 or x["variadic"]:
                    return None
                x["params"][0], x["params"][1] = x["params"][1], x["params"][0]
                return "func:swap-params"
            if c == 5:
                if len(x["results"]) < 2:
                    return None
                x["results"][0], x["results"][1] = x["results"][1], x["results"][0]
                return "func:swap-results"
            if not x["params"]:
                return None
            i = r.randrange(len(x["params"]))
            x["params"][i] = (self.other(x["params"][i][0], PNAMES), x["params"][i][1])
            return "func:param-name"
        if k == "struct":
            if not x["fields"]:
                x["fields"].append({"name": self.pick(FNAMES), "typ": self.typ(0, False, ctx), "emb": False, "tag": ""})
                return "struct:add-field"
            i = r.randrange(len(x["fields"]))
            f = x["fields"][i]
            c = r.randrange(8)
            if c == 0:
                if f["emb"]:
                    return None
                f["name"] = self.other(f["name"], FNAMES)
                return "struct:field-name"
            if c == 1:
                f["tag"] = self.other(f["tag"], TAGS)
                return "struct:tag"
            if c == 2:
                f["emb"] = not f["emb"]
                return "struct:embedded-flag"
            if c == 3:
                return None  # the package of the literal is changed by rendering the unit in another package
            if c == 4:
                if len(x["fields"]) < 2:
                    return None
                j = (i + 1) % len(x["fields"])
                x["fields"][i], x["fields"][j] = x["fields"][j], x["fields"][i]
                return "struct:swap-fields"
            if c == 5:
                del x["fields"][i]
                return "struct:drop-field"
            if c == 6:
                p, n = self.pick(PKGS), self.pick(LEAVES)
                x["fields"][i] = {"name": n, "typ": leaf(p, n), "emb": r.randrange(2) == 0, "tag": f["tag"]}
                return "struct:field-to-typename-field"
            if not f["emb"] or f["typ"]["k"] != "basic":
                return None
            sw = {"byte": "uint8", "uint8": "byte", "rune": "int32", "int32": "rune"}
            if f["name"] not in sw:
                return None
            f["name"] = sw[f["name"]]
            f["typ"]["name"] = f["name"]
            return "struct:embedded-basic-spelling"
        if k == "iface":
            if not x["methods"]:
                x["methods"].append((self.pick(MNAMES), {"k": "func", "params": [], "results": [], "variadic": False}))
                return "iface:add-method"
            i = r.randrange(len(x["methods"]))
            c = r.randrange(2)
            if c == 0:
                x["methods"][i] = (self.other(x["methods"][i][0], MNAMES), x["methods"][i][1])
                return "iface:method-name"
            del x["methods"][i]
            return "iface:drop-method"
        if k == "inst":
            o = x["origin"]
            nargs = len(x["targs"])
            for _ in range(10):
                n = self.pick(GENERICS)
                if (n[0], n[1]) != tuple(o) and n[2] == nargs:
                    x["origin"] = (n[0], n[1])
                    return "inst:origin-same-name-other-pkg" if n[1] == o[1] else "inst:origin"
            return None
        return None

    # ------------------------------------------------------------ identity-preserving respelling
    def respell(self, d, in_emb=False):
        d = clone(d)
        ns = []
        nodes(d, ns)
        emb = []
        for x in ns:
            if x["k"] == "struct":
                for f in x["fields"]:
                    if f["emb"]:
                        t = f["typ"]
                        emb.append(id(t))
                        if t["k"] == "ptr":
                            emb.append(id(t["elem"]))
        sw = {"byte": "uint8", "uint8": "byte", "rune": "int32", "int32": "rune"}
        inv = {"T": "A", "t": "a", "A": "T", "a": "t"}
        targ_nodes = []
        if "targs" in self.avoid:
            for x in ns:
                if x["k"] == "inst":
                    for a in x["targs"]:
                        nodes(a, targ_nodes)
        skip = set(id(x) for x in targ_nodes)
        for x in ns:
            if id(x) in emb or id(x) in skip:
                continue
            if x["k"] == "basic" and x["name"] in sw and self.r.randrange(2) == 0:
                x["name"] = sw[x["name"]]
            elif x["k"] == "leaf" and x["name"] in inv and self.r.randrange(2) == 0:
                x["name"] = inv[x["name"]]
            elif x["k"] == "func":
                x["params"] = [(self.pick(PNAMES), t) for (_, t) in x["params"]]
                x["results"] = [(self.pick(PNAMES), t) for (_, t) in x["results"]]
            elif x["k"] == "iface":
                ms = list(x["methods"])
                self.r.shuffle(ms)
                x["methods"] = ms
        return d


def targ_clean(d, inside=False):
    k = d["k"]
    if inside:
        if k in ("struct", "func", "iface"):
            return False
        if k == "basic" and d["name"] in ("byte", "rune"):
            return False
    ok = True
    if k in ("ptr", "slice", "array", "chan"):
        ok = targ_clean(d["elem"], inside)
    elif k == "map":
        ok = targ_clean(d["key"], inside) and targ_clean(d["elem"], inside)
    elif k == "func":
        ok = all(targ_clean(p[1], inside) for p in d["params"] + d["results"])
    elif k == "struct":
        ok = all(targ_clean(f["typ"], inside) for f in d["fields"])
    elif k == "iface":
        ok = all(targ_clean(m[1], inside) for m in d["methods"])
    elif k == "inst":
        ok = all(targ_clean(a, True) for a in d["targs"])
    return ok


def valid(d, ctx, avoid=()):
    """Go source written in package ctx can denote d."""
    ns = []
    nodes(d, ns)
    for x in ns:
        k = x["k"]
        if k == "leaf":
            if (not exported(x["name"]) and x["pkg"] != ctx) or ORDER[x["pkg"]] > ORDER[ctx]:
                return False
        elif k == "inst":
            if ORDER[x["origin"][0]] > ORDER[ctx]:
                return False
            if x["origin"][1] == "H" and not comparable(x["targs"][0]):
                return False
        elif k == "struct":
            used = []
            for f in x["fields"]:
                if f["name"] in used:
                    return False
                used.append(f["name"])
                if f["emb"]:
                    t = f["typ"]
                    base = t["elem"] if t["k"] == "ptr" else t
                    if base["k"] == "basic":
                        if base["name"] != f["name"]:
                            return False
                        if "emb" in avoid and f["name"] in ("byte", "rune"):
                            return False
                    elif base["k"] == "leaf":
                        if base["name"] != f["name"]:
                            return False
                        if t["k"] == "ptr" and base["name"] in IFACE_LEAVES:
                            return False
                        if "emb" in avoid and base["name"] in ALIAS:
                            return False
                    else:
                        return False
        elif k == "func":
            if x["variadic"] and (not x["params"] or x["params"][-1][1]["k"] != "slice"):
                return False
        elif k == "iface":
            names = [m[0] for m in x["methods"]]
            if len(names) != len(set(names)):
                return False
        elif k == "map":
            if not comparable(x["key"]):
                return False
    if "targs" in avoid and not targ_clean(d):
        return False
    return True


def is_iface_top(d):
    return d["k"] == "iface" or (d["k"] == "leaf" and d["name"] in IFACE_LEAVES)


# ---------------------------------------------------------------- rendering and canonical keys

def render(d, ctx):
    k = d["k"]
    if k == "basic":
        return d["name"]
    if k == "leaf":
        if d["pkg"] == ctx:
            return d["name"]
        return d["pkg"] + "." + d["name"]
    if k == "local":
        return d["name"]
    if k == "ptr":
        return "*" + render(d["elem"], ctx)
    if k == "slice":
        return "[]" + render(d["elem"], ctx)
    if k == "array":
        return "[%d]%s" % (d["n"], render(d["elem"], ctx))
    if k == "map":
        return "map[%s]%s" % (render(d["key"], ctx), render(d["elem"], ctx))
    if k == "chan":
        e = render(d["elem"], ctx)
        if d["elem"]["k"] == "chan" and d["elem"]["dir"] == 2:
            e = "(" + e + ")"
        return ["chan ", "chan<- ", "<-chan "][d["dir"]] + e
    if k == "func":
        return "func" + render_sig(d, ctx)
    if k == "struct":
        fs = []
        for f in d["fields"]:
            s = render(f["typ"], ctx) if f["emb"] else f["name"] + " " + render(f["typ"], ctx)
            if f["tag"]:
                s += " " + go_quote(f["tag"])
            fs.append(s)
        return "struct{ " + "; ".join(fs) + " }" if fs else "struct{}"
    if k == "iface":
        ms = [m[0] + render_sig(m[1], ctx) for m in d["methods"]]
        return "interface{ " + "; ".join(ms) + " }" if ms else "interface{}"
    if k == "inst":
        o = d["origin"]
        name = o[1] if o[0] == ctx else o[0] + "." + o[1]
        return name + "[" + ", ".join(render(a, ctx) for a in d["targs"]) + "]"
    raise ValueError(k)


def go_quote(s):
    return '"' + s.replace("\\", "\\\\").replace('"', '\\"') + '"'


def render_sig(d, ctx):
    ps = d["params"]
    rs = d["results"]
    used = []

    def uniq(n):
        # Go rejects duplicate parameter/result names; names never matter for identity
        if not n or n == "_" or n in used:
            return "_"
        used.append(n)
        return n

    named = any(n for n, _ in ps)
    parts = []
    for i, (n, t) in enumerate(ps):
        ts = render(t, ctx)
        if d["variadic"] and i == len(ps) - 1:
            ts = "..." + render(t["elem"], ctx)
        if named:
            parts.append(uniq(n) + " " + ts)
        else:
            parts.append(ts)
    s = "(" + ", ".join(parts) + ")"
    if rs:
        rnamed = any(n for n, _ in rs)
        rp = [(uniq(n) + " " if rnamed else "") + render(t, ctx) for n, t in rs]
        if len(rs) == 1 and not rnamed:
            s += " " + rp[0]
        else:
            s += " (" + ", ".join(rp) + ")"
    return s


def canon(d, ctx):
    """Key that is equal exactly for identical Go types (ctx = package in which the literal is written)."""
    k = d["k"]
    if k == "basic":
        return ("b", {"byte": "uint8", "rune": "int32"}.get(d["name"], d["name"]))
    if k == "leaf":
        n = ALIAS.get(d["name"], d["name"])
        if n == "B":
            return canon({"k": "struct", "fields": [{"name": "X", "typ": B("int"), "emb": False, "tag": ""}]}, d["pkg"])
        return ("n", d["pkg"], n)
    if k == "local":
        return ("l", d["uid"])
    if k in ("ptr", "slice"):
        return (k, canon(d["elem"], ctx))
    if k == "array":
        return (k, d["n"], canon(d["elem"], ctx))
    if k == "chan":
        return (k, d["dir"], canon(d["elem"], ctx))
    if k == "map":
        return (k, canon(d["key"], ctx), canon(d["elem"], ctx))
    if k == "func":
        return (k, tuple(canon(t, ctx) for _, t in d["params"]), tuple(canon(t, ctx) for _, t in d["results"]), d["variadic"])
    if k == "struct":
        unexp = any(not exported(f["name"]) for f in d["fields"])
        return (k, ctx if unexp else "", tuple((f["name"], f["emb"], f["tag"], canon(f["typ"], ctx)) for f in d["fields"]))
    if k == "iface":
        ms = sorted((m[0], canon(m[1], ctx)) for m in d["methods"])
        unexp = any(not exported(m[0]) for m in d["methods"])
        return (k, ctx if unexp else "", tuple(ms))
    if k == "inst":
        return (k, tuple(d["origin"]), tuple(canon(a, ctx) for a in d["targs"]))
    raise ValueError(k)


def skeleton(d):
    k = d["k"]
    if k in ("basic", "leaf", "local"):
        return k[0]
    if k in ("ptr", "slice", "array", "chan"):
        return k[:2] + "(" + skeleton(d["elem"]) + ")"
    if k == "map":
        return "ma(" + skeleton(d["key"]) + "," + skeleton(d["elem"]) + ")"
    if k == "func":
        return "fu(" + ",".join(skeleton(t) for _, t in d["params"]) + ("..." if d["variadic"] else "") + ";" + ",".join(skeleton(t) for _, t in d["results"]) + ")"
    if k == "struct":
        return "st{" + ";".join(("^" if f["emb"] else "") + ("`" if f["tag"] else "") + ("_" if not exported(f["name"]) else "") + skeleton(f["typ"]) for f in d["fields"]) + "}"
    if k == "iface":
        return "if{" + ";".join(("_" if not exported(m[0]) else "") + skeleton(m[1]) for m in d["methods"]) + "}"
    if k == "inst":
        return "in[" + ",".join(skeleton(a) for a in d["targs"]) + "]"
    return "?"


# ---------------------------------------------------------------- identity program

class Unit:
    def __init__(self, pkg, body, n, labels, descs, switchable):
        self.pkg, self.body, self.n, self.labels, self.descs, self.switchable = pkg, body, n, labels, descs, switchable


def simple_unit(pkg, d, label):
    t = render(d, pkg)
    body = ("\tvar v %s\n\tvs = append(vs, v)\n"
            "\tfs = append(fs, func(x any) bool { _, ok := x.(%s); return ok })\n\treturn\n") % (t, t)
    return Unit(pkg, body, 1, [label + " | " + pkg + ": " + t], [(d, pkg)], True)


def local_unit(g, pkg, uid0):
    """Function-local types: same name in sibling / nested scopes, and composites built from them."""
    r = g.r
    unders = ["int", "string", "struct{ a int }", "[2]int", "bool"]
    lines = []
    labels = []
    descs = []
    n = 0
    uid = [uid0]

    def emit(ind, expr, what):
        nonlocal n
        lines.append("%svs = append(vs, *new(%s))" % (ind, expr))
        lines.append("%sfs = append(fs, func(x any) bool { _, ok := x.(%s); return ok })" % (ind, expr))
        labels.append("local | %s: %s (%s)" % (pkg, expr, what))
        uid[0] += 1
        descs.append(({"k": "local", "name": expr, "uid": uid[0]}, pkg))
        n += 1

    def block(ind, depth):
        u = g.pick(unders)
        lines.append("%stype L %s" % (ind, u))
        emit(ind, "L", "scope depth %d" % depth)
        c = r.randrange(5)
        if c == 0:
            emit(ind, "[]L", "slice of local")
        elif c == 1:
            emit(ind, "struct{ F L }", "struct of local")
        elif c == 2:
            emit(ind, "g.G[L]", "instance over local")
        elif c == 3:
            emit(ind, "func(L) L", "func of local")
        if depth < 2:
            for _ in range(r.randrange(3)):
                lines.append(ind + "{")
                block(ind + "\t", depth + 1)
                lines.append(ind + "}")

    block("\t", 0)
    lines.append("\treturn")
    return Unit(pkg, "\n".join(lines) + "\n", n, labels, descs, False), uid[0]


def genloc_unit(g, pkg, uid0):
    """g.Loc[X] instantiated from pkg: the local types of distinct instantiations are distinct."""
    r = g.r
    cands = ["int", "string", "T", "[]int", "*T", "g.G[int]"]
    if "targs" not in g.avoid:
        cands += ["struct{ a int }", "func(a int)", "byte", "interface{ m() }"]
    arg = g.pick(cands)
    if "genclosure" in g.avoid:
        body = ("\tvs, _ = g.LocB[%s](nil, 0)\n"
                "\tfs = append(fs, func(x any) bool { _, ok := g.LocB[%s](x, 0); return ok })\n"
                "\tfs = append(fs, func(x any) bool { _, ok := g.LocB[%s](x, 1); return ok })\n\treturn\n") % (arg, arg, arg)
    else:
        body = "\treturn g.Loc[%s]()\n" % arg
    canon_arg = {"T": pkg + ".T", "*T": "*" + pkg + ".T", "byte": "uint8"}.get(arg, arg)
    if arg in ("struct{ a int }", "interface{ m() }"):
        canon_arg = pkg + ":" + arg
    if arg == "func(a int)":
        canon_arg = "func(int)"
    labels = ["genlocal | %s: g.Loc[%s] L" % (pkg, arg), "genlocal | %s: g.Loc[%s] []L" % (pkg, arg)]
    descs = [({"k": "local", "name": "L", "uid": "Loc[%s].L" % canon_arg}, pkg), ({"k": "local", "name": "[]L", "uid": "Loc[%s].[]L" % canon_arg}, pkg)]
    return Unit(pkg, body, 2, labels, descs, False), uid0


def gen_identity(seed, index, avoid=(), reflect=False, families=7):
    rng = random.Random("c07-id-%d-%d-%s" % (seed, index, "r" if reflect else "p"))
    g = Gen(rng, list(avoid))
    units = []
    sigs = []
    expected_pairs = []
    for fam in range(families):
        for _ in range(50):
            ctx = g.pick(PKGS)
            d = g.typ(1 + rng.randrange(3), False, ctx)
            if is_iface_top(d):
                d = {"k": g.pick(["ptr", "slice"]), "elem": d}
            if valid(d, ctx, g.avoid):
                break
        else:
            continue
        sk = skeleton(d)
        sigs.append(sk)
        fam_units = [simple_unit(ctx, d, "f%d base" % fam), simple_unit(ctx, d, "f%d copy" % fam)]
        rs = g.respell(d)
        if valid(rs, ctx, g.avoid):
            fam_units.append(simple_unit(ctx, rs, "f%d respelled" % fam))
        for other in PKGS:
            if other != ctx and valid(d, other, g.avoid) and rng.randrange(2) == 0:
                fam_units.append(simple_unit(other, d, "f%d same text in %s" % (fam, other)))
                sigs.append(sk + "|other-pkg")
        for _ in range(5):
            m, kind = g.mutate(d, ctx)
            if m is None or is_iface_top(m):
                continue
            fam_units.append(simple_unit(ctx, m, "f%d %s" % (fam, kind)))
            sigs.append(sk + "|" + kind)
        units += fam_units
    uid = 0
    for pkg in PKGS:
        for _ in range(1 + rng.randrange(2)):
            u, uid = local_unit(g, pkg, uid)
            units.append(u)
            sigs.append("local|%d" % u.n)
        for _ in range(2):
            u, uid = genloc_unit(g, pkg, uid)
            units.append(u)
            sigs.append("genlocal|" + u.labels[0].split("[", 1)[1])
    files = {"g/g.go": G_SRC}
    by_pkg = {p: [] for p in PKGS}
    names = []
    for i, u in enumerate(units):
        by_pkg[u.pkg].append((i, u))
    labels = []
    order = []
    for p in PKGS:
        for i, u in by_pkg[p]:
            order.append((p, i, u))
    vals_labels = []
    keys = []
    for p, i, u in order:
        vals_labels += u.labels
        for d, c in u.descs:
            keys.append(canon(d, c))
    for p in PKGS:
        src = ["package %s\n" % CLAUSE[p], "import ("]
        for q in ["g"] + PKGS:
            if ORDER[q] < ORDER[p]:
                src.append('\t%s "%s"' % (q, PATH[q]))
        src.append(")\n")
        use = " + ".join(q + ".Use" for q in ["g"] + PKGS if ORDER[q] < ORDER[p])
        src.append("const _ = %s\n" % use)
        src.append(LEAF_DECLS)
        seen = []
        cases = []
        for i, u in by_pkg[p]:
            src.append("func U%d() (vs []any, fs []func(any) bool) {\n%s}\n" % (i, u.body))
            if u.switchable:
                d, c = u.descs[0]
                key = canon(d, c)
                if key not in seen:
                    seen.append(key)
                    cases.append("\tcase %s:\n\t\treturn %d" % (render(d, p), i))
        src.append("func Sw(x any) int {\n\tswitch x.(type) {\n%s\n\t}\n\treturn -1\n}\n" % "\n".join(cases) if cases
                   else "func Sw(x any) int { return -1 }\n")
        files[DIR[p] + "/" + p + ".go"] = "\n".join(src)
    adds = "\n".join("\tadd(%s.U%d())" % (p, i) for p, i, u in order)
    imports = "\n".join('\t%s "%s"' % (q, PATH[q]) for q in PKGS)
    if reflect:
        main = MAIN_REFLECT % (imports, adds)
    else:
        main = MAIN_PLAIN % (imports, adds)
    files["main.go"] = main
    n = len(keys)
    ident = sum(1 for i in range(n) for j in range(n) if keys[i] == keys[j])
    return {"files": files, "labels": vals_labels, "keys": keys, "sigs": sigs, "nvals": n, "expected_identical_pairs": ident}


MAIN_PLAIN = """package main

import (
%s
)

var vals []any
var fns []func(any) bool

func add(vs []any, fs []func(any) bool) {
	vals = append(vals, vs...)
	fns = append(fns, fs...)
}

func eq(a, b any) (r int) {
	defer func() {
		if recover() != nil {
			r = 2
		}
	}()
	if a == b {
		return 1
	}
	return 0
}

func put(m map[any]int, k any, i int) (r int) {
	defer func() {
		if recover() != nil {
			r = -2
		}
	}()
	if j, ok := m[k]; ok {
		return j
	}
	m[k] = i
	return i
}

func main() {
%s
	n := len(vals)
	println("N", n, len(fns))
	for i := 0; i < n; i++ {
		print("A ", i, " ")
		for j := 0; j < n; j++ {
			if fns[j](vals[i]) {
				print("1")
			} else {
				print("0")
			}
		}
		println()
	}
	for i := 0; i < n; i++ {
		println("S", i, pa.Sw(vals[i]), pb.Sw(vals[i]), pc.Sw(vals[i]))
	}
	for i := 0; i < n; i++ {
		print("E ", i, " ")
		for j := 0; j < n; j++ {
			print(eq(vals[i], vals[j]))
		}
		println()
	}
	m := map[any]int{}
	for i := 0; i < n; i++ {
		println("M", i, put(m, vals[i], i))
	}
	println("END")
}
"""

MAIN_REFLECT = """package main

import (
	"reflect"
%s
)

var vals []any
var fns []func(any) bool

func add(vs []any, fs []func(any) bool) {
	vals = append(vals, vs...)
	fns = append(fns, fs...)
}

func main() {
%s
	n := len(vals)
	println("N", n, len(fns))
	ts := make([]reflect.Type, n)
	for i := 0; i < n; i++ {
		ts[i] = reflect.TypeOf(vals[i])
	}
	for i := 0; i < n; i++ {
		print("R ", i, " ")
		for j := 0; j < n; j++ {
			if ts[i] == ts[j] {
				print("1")
			} else {
				print("0")
			}
		}
		println()
	}
	// component types reached through reflect must be the same descriptors as the top-level ones
	for i := 0; i < n; i++ {
		var e reflect.Type
		switch ts[i].Kind() {
		case reflect.Ptr, reflect.Slice, reflect.Array, reflect.Chan, reflect.Map:
			e = ts[i].Elem()
		default:
			continue
		}
		print("L ", i, " ")
		for j := 0; j < n; j++ {
			if e == ts[j] {
				print("1")
			} else {
				print("0")
			}
		}
		println()
	}
	println("END")
}
"""


# ---------------------------------------------------------------- (concrete type, interface) program

SIGV = ["()", "(int)", "(...int)", "([]int)", "(string)"]
SIGDECL = ["()", "(a int)", "(a ...int)", "(a []int)", "(a string)"]
SIGCALL = ["()", "(0)", "()", "(nil)", '("")']
CM_NAMES = ["M", "N", "m", "n", "V"]


def _mset_q(types, ti, ptr):
    t = types[ti]
    out = {}
    own = []
    for (mn, sv, rc, mid) in t["methods"]:
        qn = mn if exported(mn) else t["pkg"] + "." + mn
        own.append(qn)
        if rc == "v" or ptr:
            out[qn] = (sv, mid)
    if t["emb"] is not None:
        ei, eptr = t["emb"]
        for qn, v in _mset_q(types, ei, True if eptr else ptr).items():
            if qn not in own:
                out[qn] = v
    return out


def dup_unexported(types, ti):
    """method set of *T holds two unexported methods with the same bare name (different packages)"""
    bare = {}
    for qn in sorted(_mset_q(types, ti, True)):
        if "." in qn:
            pk, mn = qn.split(".")
            if mn in bare and bare[mn] != pk:
                return True
            bare[mn] = pk
    return False


def gen_iface(seed, index, avoid=()):
    rng = random.Random("c07-if-%d-%d" % (seed, index))
    pick = lambda xs: xs[rng.randrange(len(xs))]
    # concrete types -------------------------------------------------------
    types = []  # dict(pkg,name,kind,emb=(index,ptr)|None,methods=[(name,sigv,recv,id)])
    canonical = {mn: rng.randrange(len(SIGV)) for mn in CM_NAMES}  # most methods of one name share a signature
    for pi, p in enumerate(PKGS):
        for k in range(2 + rng.randrange(2)):
            name = "C%d" % k
            kind = pick(["struct", "int", "emb", "emb", "emb", "generic"])
            emb = None
            if kind == "emb":
                cands = [i for i, t in enumerate(types) if t["kind"] != "generic"]
                if not cands:
                    kind = "struct"
                else:
                    emb = (pick(cands), rng.randrange(2) == 0)
            ms = []
            used = []
            for _ in range(1 + rng.randrange(4)):
                mn = pick(CM_NAMES)
                if mn in used:
                    continue
                used.append(mn)
                sv = canonical[mn] if rng.randrange(10) < 7 else rng.randrange(len(SIGV))
                ms.append((mn, sv, pick(["v", "v", "p"]), 1000 * (len(types) + 1) + len(ms) + 1))
            types.append({"pkg": p, "name": name, "kind": kind, "emb": emb, "methods": ms})
            if "unexpdup" in avoid:
                for _ in range(30):
                    if not dup_unexported(types, len(types) - 1):
                        break
                    t = types[-1]
                    t["methods"] = [m for m in t["methods"] if exported(m[0])]
                    if dup_unexported(types, len(types) - 1):
                        t["kind"], t["emb"] = "struct", None

    def qual(t, ctx):
        n = t["name"] + ("[int]" if t["kind"] == "generic" else "")
        return n if t["pkg"] == ctx else t["pkg"] + "." + n

    def mset(ti, ptr):
        """{qualified method name: (sigv, id)}; qualified = name for exported, pkg.name for unexported"""
        t = types[ti]
        out = {}
        own = []
        for (mn, sv, rc, mid) in t["methods"]:
            own.append(mn if exported(mn) else t["pkg"] + "." + mn)
            if rc == "v" or ptr:
                out[mn if exported(mn) else t["pkg"] + "." + mn] = (sv, mid)
        if t["emb"] is not None:
            ei, eptr = t["emb"]
            inner = mset(ei, True if eptr else ptr)
            for qn, v in inner.items():
                if qn not in own:
                    out[qn] = v
        return out

    def mk(ti, ctx):
        t = types[ti]
        if t["kind"] == "int":
            return qual(t, ctx) + "(0)"
        if t["kind"] == "emb":
            ei, eptr = t["emb"]
            e = types[ei]
            inner = mk(ei, ctx)
            if eptr:
                if e["kind"] == "int":
                    return "%s{%s: new(%s)}" % (qual(t, ctx), e["name"], qual(e, ctx))
                inner = "&" + inner
            return "%s{%s: %s}" % (qual(t, ctx), e["name"], inner)
        return qual(t, ctx) + "{}"

    # interfaces -------------------------------------------------------------
    ifaces = []  # dict(pkg,name,methods=[(name,sigv)])
    for p in PKGS:
        for k in range(3 + rng.randrange(2)):
            # start from the method set of some type (so that it is satisfiable), then maybe perturb
            ti = rng.randrange(len(types))
            ms0 = mset(ti, True)
            names = sorted(ms0)
            ms = []
            for qn in names:
                if rng.randrange(2) == 0:
                    continue
                if "." in qn:
                    pk, mn = qn.split(".")
                    if pk != p:
                        # cannot name another package's unexported method; declare our own m instead
                        pass
                else:
                    mn = qn
                ms.append((mn, ms0[qn][0]))
            if not ms:
                ms.append((pick(CM_NAMES), rng.randrange(len(SIGV))))
            c = rng.randrange(7)
            if c == 0:
                i = rng.randrange(len(ms))
                ms[i] = (ms[i][0], (ms[i][1] + 1 + rng.randrange(len(SIGV) - 1)) % len(SIGV))
            elif c == 1:
                ms.append((pick(CM_NAMES), rng.randrange(len(SIGV))))
            elif c == 2 and len(ms) > 1:
                del ms[rng.randrange(len(ms))]
            seen = []
            ms2 = []
            for m in ms:
                if m[0] not in seen:
                    seen.append(m[0])
                    ms2.append(m)
            ifaces.append({"pkg": p, "name": "I%d" % k, "methods": ms2})

    # sources ------------------------------------------------------------------
    files = {"g/g.go": G_SRC}
    sigs = []
    for p in PKGS:
        src = ["package %s\n" % CLAUSE[p], "import ("]
        for q in ["g"] + PKGS:
            if ORDER[q] < ORDER[p]:
                src.append('\t%s "%s"' % (q, PATH[q]))
        src.append(")\n")
        src.append("const _ = %s\n" % " + ".join(q + ".Use" for q in ["g"] + PKGS if ORDER[q] < ORDER[p]))
        src.append("const Use = 0\n")
        for ti, t in enumerate(types):
            if t["pkg"] != p:
                continue
            recvname = t["name"]
            if t["kind"] == "struct":
                src.append("type %s struct{ f0 int }" % t["name"])
            elif t["kind"] == "int":
                src.append("type %s int" % t["name"])
            elif t["kind"] == "generic":
                src.append("type %s[X any] struct{ f0 X }" % t["name"])
                recvname = t["name"] + "[X]"
            else:
                ei, eptr = t["emb"]
                src.append("type %s struct {\n\t%s%s\n\tf0 int\n}" % (t["name"], "*" if eptr else "", qual(types[ei], p)))
            for (mn, sv, rc, mid) in t["methods"]:
                src.append("func (%s%s) %s%s int { return %d }" % ("*" if rc == "p" else "", recvname, mn, SIGDECL[sv], mid))
            src.append("")
        for it in ifaces:
            if it["pkg"] != p:
                continue
            src.append("type %s interface {" % it["name"])
            for mn, sv in it["methods"]:
                src.append("\t%s%s int" % (mn, SIGV[sv]))
            src.append("}\n")
            calls = ", ".join('" %s="' % (mn if exported(mn) else p + "." + mn) + ", i." + mn + SIGCALL[sv] for mn, sv in it["methods"])
            others = [o for o in ifaces if o["pkg"] == p and o["name"] != it["name"]]
            xs = "".join("\tif _, ok := i.(%s); ok {\n\t\tprint(\" >%s\")\n\t}\n" % (o["name"], o["name"]) for o in others)
            src.append("func Chk%s(v any) {\n\ti, ok := v.(%s)\n\tif !ok {\n\t\tprintln(\" %s.%s -\")\n\t\treturn\n\t}\n"
                       "\tprint(\" %s.%s +\", %s)\n%s\tprintln()\n}\n" % (it["name"], it["name"], p, it["name"], p, it["name"], calls, xs))
            sigs.append("iface|" + ",".join(("_" if not exported(mn) else "") + SIGV[sv] for mn, sv in it["methods"]))
        # direct calls (accessible methods only)
        dl = []
        for ti, t in enumerate(types):
            if t["pkg"] != p:
                continue
            for ptr in (False, True):
                for qn, (sv, mid) in sorted(mset(ti, ptr).items()):
                    if "." in qn and qn.split(".")[0] != p:
                        continue
                    mn = qn.split(".")[-1]
                    recv = "(" + mk(ti, p) + ")"
                    if ptr:
                        recv = "(&x%d)" % ti if t["kind"] != "int" else "(&x%d)" % ti
                    dl.append("\tprintln(\"D %s.%s %s %s\", %s.%s%s)" % (p, t["name"], "p" if ptr else "v", qn, recv, mn, SIGCALL[sv]))
            dl.insert(0, "\tx%d := %s\n\t_ = x%d" % (ti, mk(ti, p), ti))
            sigs.append("type|%s|%s|%s" % (t["kind"], "emb-ptr" if t["emb"] and t["emb"][1] else "emb" if t["emb"] else "",
                                           ",".join(("_" if not exported(m[0]) else "") + SIGV[m[1]] + m[2] for m in t["methods"])))
        src.append("func Direct() {\n%s\n}\n" % "\n".join(dl))
        files[DIR[p] + "/" + p + ".go"] = "\n".join(src)
    # main
    lines = []
    nv = 0
    for ti, t in enumerate(types):
        for ptr in (False, True):
            e = mk(ti, "main")
            if ptr:
                e = "&" + e if t["kind"] != "int" else "new(%s)" % qual(t, "main")
            lines.append("\tvals = append(vals, %s)\n\tnames = append(names, \"%s.%s %s\")" % (e, t["pkg"], t["name"], "p" if ptr else "v"))
            nv += 1
        if t["kind"] == "generic":
            lines.append("\tvals = append(vals, %s.%s[string]{})\n\tnames = append(names, \"%s.%s[string] v\")" % (t["pkg"], t["name"], t["pkg"], t["name"]))
            nv += 1
    chks = "\n".join("\t\t%s.Chk%s(v)" % (it["pkg"], it["name"]) for it in ifaces)
    imports = "\n".join('\t%s "%s"' % (q, PATH[q]) for q in PKGS)
    files["main.go"] = MAIN_IFACE % (imports, "\n".join(lines), chks)
    # expected (from the generator's own method-set computation) for the in-check cross validation
    expect = {}
    for ti, t in enumerate(types):
        for ptr in (False, True):
            ms = mset(ti, ptr)
            for it in ifaces:
                ok = True
                for mn, sv in it["methods"]:
                    qn = mn if exported(mn) else it["pkg"] + "." + mn
                    if qn not in ms or ms[qn][0] != sv:
                        ok = False
                expect["%s.%s %s|%s.%s" % (t["pkg"], t["name"], "p" if ptr else "v", it["pkg"], it["name"])] = ok
    return {"files": files, "sigs": sigs, "nvals": nv, "nifaces": len(ifaces), "expect": expect}


MAIN_IFACE = """package main

import (
%s
)

var vals []any
var names []string

func main() {
%s
	pa.Direct()
	pb.Direct()
	pc.Direct()
	for k, v := range vals {
		println("C", names[k])
%s
	}
	println("END")
}
"""

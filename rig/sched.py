"""E3 helpers: instantiate the scheduler-harness module with real source files copied from the
working tree (import paths rewritten, nothing else), build harness binaries, fan out seed ranges."""
import json
import os
import re
import shutil
import subprocess
import sys

sys.path.insert(0, os.path.dirname(os.path.abspath(__file__)))
import core

SCHED = os.path.join(core.V, "sched")


def copy_module(dst, exclude=()):
    shutil.rmtree(dst, ignore_errors=True)
    shutil.copytree(SCHED, dst, ignore=shutil.ignore_patterns("probes", *exclude))


def rewrite_imports(src_path, dst_path, pkg, repl):
    """repl: list of (import path in repo, replacement import spec).  Every listed import must be
    present exactly once; nothing but the package clause and those import lines is touched."""
    s = open(src_path).read()
    for old, new in repl:
        pat = re.compile(r'^(\s*)(\w+\s+)?"%s"\s*$' % re.escape(old), re.M)
        m = pat.findall(s)
        if len(m) != 1:
            core.broken("%s: expected exactly one import of %s, found %d (harness needs an update)" % (src_path, old, len(m)))
        s = pat.sub(lambda mo: "%s%s" % (mo.group(1), new), s, count=1)
    s, n = re.subn(r"^package \w+\s*$", "package " + pkg, s, count=1, flags=re.M)
    if n != 1:
        core.broken("no package clause in " + src_path)
    with open(dst_path, "w") as f:
        f.write(s)


def go_build(work, moddir, pkg, out, race=False):
    cmd = ["go", "build", "-o", out]
    if race:
        cmd.append("-race")
    cmd.append(pkg)
    rc, so, se = core.sh(cmd, env=work.env(), cwd=moddir, timeout=900)
    return rc, so + se


def fanout(binary, total, nproc, outdir, extra_args=(), start=0, timeout=3600):
    """run `binary -from a -n k -out file` over nproc processes; returns list of report dicts"""
    os.makedirs(outdir, exist_ok=True)
    per = (total + nproc - 1) // nproc
    procs = []
    for i in range(nproc):
        a = start + i * per
        k = min(per, start + total - a)
        if k <= 0:
            break
        out = os.path.join(outdir, "rep-%d.json" % i)
        p = subprocess.Popen([binary, "-from", str(a), "-n", str(k), "-out", out] + list(extra_args),
                             stdout=subprocess.PIPE, stderr=subprocess.STDOUT)
        procs.append((p, out, a, k))
    reps = []
    for p, out, a, k in procs:
        try:
            so, _ = p.communicate(timeout=timeout)
        except subprocess.TimeoutExpired:
            p.kill()
            so, _ = p.communicate()
            reps.append({"_crash": "timeout", "_from": a, "_n": k, "_out": so.decode("utf-8", "replace")[-3000:]})
            continue
        if p.returncode != 0 or not os.path.exists(out):
            reps.append({"_crash": "rc=%s" % p.returncode, "_from": a, "_n": k, "_out": so.decode("utf-8", "replace")[-6000:]})
            continue
        with open(out) as f:
            reps.append(json.load(f))
    return reps


def merge_counts(dst, src):
    for k, v in (src or {}).items():
        dst[k] = dst.get(k, 0) + v


GOSYNC_FILES = ["mutex.go", "rwmutex.go", "waitgroup.go", "once.go", "cond.go"]


def instantiate_gosync(moddir, goroot=None):
    """Copies Go's own sync sources (the ones llgo compiles unchanged on top of sema_llgo.go) into the
    harness module: internal/sync/mutex.go -> isync, sync/{mutex,rwmutex,waitgroup,once,cond}.go -> gsync;
    imports of sync/atomic, internal/race, internal/sync are redirected to the yielding stand-ins."""
    goroot = goroot or core.GO124
    isync = os.path.join(moddir, "isync")
    gsync = os.path.join(moddir, "gsync")
    os.makedirs(isync, exist_ok=True)
    os.makedirs(gsync, exist_ok=True)

    def conv(src, dst, pkg):
        s = open(src).read()
        s = re.sub(r"^//go:(linkname|build).*\n", "", s, flags=re.M)
        s = s.replace('"internal/race"', 'race "schedharness/race"')
        s = s.replace('"sync/atomic"', 'atomic "schedharness/yatomic"')
        s = s.replace('isync "internal/sync"', 'isync "schedharness/isync"')
        s, n = re.subn(r"^package sync\s*$", "package " + pkg, s, count=1, flags=re.M)
        if n != 1:
            core.broken("no package clause in " + src)
        open(dst, "w").write(s)
    conv(os.path.join(goroot, "src/internal/sync/mutex.go"), os.path.join(isync, "mutex.go"), "isync")
    for fn in GOSYNC_FILES:
        conv(os.path.join(goroot, "src/sync", fn), os.path.join(gsync, fn), "gsync")
    for tmpl, dst in (("isynctmpl", isync), ("gsynctmpl", gsync)):
        for fn in os.listdir(os.path.join(moddir, tmpl)):
            shutil.copy(os.path.join(moddir, tmpl, fn), os.path.join(dst, fn[:-5] if fn.endswith(".tmpl") else fn))

"""Regenerates MANIFEST.json from checks/registry.json (single source of truth)."""
import json, os
V = os.path.dirname(os.path.dirname(os.path.abspath(__file__)))
reg = json.load(open(os.path.join(V, "checks", "registry.json")))
for fn in sorted(os.listdir(os.path.join(V, "checks", "registry.d"))):
    if fn.endswith(".json"):
        reg["checks"][fn[:-5]] = json.load(open(os.path.join(V, "checks", "registry.d", fn)))
props = [json.loads(l)["id"] for l in open(os.path.join(V, "properties.jsonl"))]
checks, na = [], []
for pid in props:
    r = reg["checks"].get(pid)
    if r and r.get("claimed"):
        checks.append({
            "property_id": pid,
            "quick_cmd": "./run %s quick" % pid,
            "thorough_cmd": "./run %s thorough" % pid,
            "evidence_file": "/verif/evidence/%s.json" % pid,
            "replay_cmd_template": "./run replay {path}",
            "engine": r["engine"],
            "level_claimed": {"category": r["level"], "text": r["text"], "design_ref": r.get("design_ref", "DESIGN.md §4 " + pid)},
            "level_note": r["note"],
            "technique": r["technique"],
        })
    else:
        na.append({"property_id": pid, "reason": (r or {}).get("reason", "check not built yet in this session (planned, see DESIGN.md §4)")})
m = {
    "version": 1,
    "setup_cmd": "./setup.sh",
    "hooks": reg["hooks"],
    "engines": reg["engines"],
    "checks": checks,
    "not_applicable": na,
    "notes": reg.get("notes", ""),
}
json.dump(m, open(os.path.join(V, "MANIFEST.json"), "w"), indent=1)
print("MANIFEST: %d checks, %d not claimed" % (len(checks), len(na)))

"""Leg B for C10/C11: fixed multi-goroutine programs with schedule-independent results, compiled by llgo
(from the working tree) and by go; the llgo binary is run repeatedly natively, pinned to one and two CPUs;
every run must exit normally with the reference output; a quiescent process (all threads asleep, CPU and
context-switch counters frozen) is a deadlock (logical verdict), a busy timeout is inconclusive."""
import os
import sys

sys.path.insert(0, os.path.dirname(os.path.abspath(__file__)))
import core


def run(chk, progdir, label, runs_quick=6, runs_thorough=60):
    w = chk.work
    llgo = core.build_llgo(w)
    names = sorted(os.listdir(progdir))
    nruns = runs_thorough if chk.tier == "thorough" else runs_quick

    def build(name):
        d = w.sub("legb", name)
        src = open(os.path.join(progdir, name, "main.go")).read()
        core.write_module(d, {"main.go": src}, modname="legb_" + name)
        lb = os.path.join(d, "p_llgo.bin")
        gb = os.path.join(d, "p_go.bin")
        r1 = core.llgo_build(w, llgo, d, lb)
        r2 = core.go_build(w, d, gb)
        return name, src, lb, gb, r1, r2
    built = core.pmap(build, names, workers=4)
    jobs = []
    expect = {}
    for name, src, lb, gb, r1, r2 in built:
        if r2[0] != 0:
            core.broken("leg B program %s rejected by go: %s" % (name, r2[2][-800:]))
        if r1[0] != 0:
            chk.violation("legb-build-" + name, {"main.go": src, "build.log": r1[1] + r1[2]},
                          "%s leg B: llgo cannot build %s which go accepts:\n%s" % (label, name, (r1[1] + r1[2])[-1200:]))
            continue
        ref = core.run_prog([gb], timeout=600, quiesce=False)
        if ref.kind != "exit" or ref.rc != 0:
            core.broken("leg B reference run of %s failed: %s rc=%s %s" % (name, ref.kind, ref.rc, ref.err[-500:]))
        expect[name] = ref.err
        for i in range(nruns):
            # programs with spin loops (marker file `nopin`) are not pinned: on a loaded machine a pinned spinner
            # needs a scheduling quantum per hand-off and the run becomes a timeout (inconclusive), not a verdict
            pin = None if os.path.exists(os.path.join(progdir, name, "nopin")) else [None, "0", "0,1"][i % 3]
            jobs.append((name, src, lb, pin, i))

    def one(j):
        name, src, lb, pin, i = j
        cmd = [lb] if pin is None else ["taskset", "-c", pin, lb]
        return j, core.run_prog(cmd, timeout=900)
    results = core.pmap(one, jobs, workers=5)
    stats = {}
    for (name, src, lb, pin, i), r in results:
        st = stats.setdefault(name, {"runs": 0, "ok": 0, "inconclusive": 0})
        st["runs"] += 1
        cfg = "native" if pin is None else "taskset -c " + pin
        if r.kind == "timeout":
            st["inconclusive"] += 1
            chk.inconclusive += 1
            continue
        if r.kind == "exit" and r.rc == 0 and r.err == expect[name]:
            st["ok"] += 1
            continue
        if any(v["name"] == "legb-" + name for v in chk.violations):
            continue
        what = {"deadlock": "deadlocked (all threads asleep, no progress)", "signal": "died with signal %s" % -r.rc if r.rc else "died",
                "exit": "finished with a different result"}.get(r.kind, r.kind)
        chk.violation("legb-" + name, {"main.go": src, "go.mod": "module legb_%s\n\ngo 1.24\n" % name, "expected.txt": expect[name],
                                       "got.txt": r.err[-4000:],
                                       "replay.sh": "#!/bin/sh\ncd \"$(dirname \"$0\")\" && exec python3 %s/rig/replay_diff.py .\n" % core.V},
                      "%s leg B program %s (%s, run %d) %s under llgo; go prints:\n%s\nllgo printed:\n%s" % (
                          label, name, cfg, i, what, expect[name][:600], r.err[-600:]))
    chk.cov[label + "_legb_programs"] = stats
    chk.cov["evaluations"] += sum(s["runs"] for s in stats.values())
    for name in stats:
        chk.sig("legb:" + name)
    return stats

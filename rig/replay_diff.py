"""Generic replay for E1 differential cases: build the module in <dir> with llgo (from VERIF_REPO or /repo) and go,
run both (stdin from <dir>/stdin.txt if present) and print the first differing line of stdout / stderr."""
import os, sys
sys.path.insert(0, os.path.dirname(os.path.abspath(__file__)))
import core
d = os.path.abspath(sys.argv[1])
w = core.Work("replay")
llgo = core.build_llgo(w)
stdin = open(os.path.join(d, "stdin.txt")).read() if os.path.exists(os.path.join(d, "stdin.txt")) else None
tags = open(os.path.join(d, "tags.txt")).read().strip() if os.path.exists(os.path.join(d, "tags.txt")) else None
src = w.sub("src")
os.system("cp -r %s/. %s/" % (d, src))
rc, so, se = core.llgo_build(w, llgo, src, os.path.join(w.dir, "p_llgo.bin"), tags=tags)
if rc != 0:
    print("llgo build failed:\n" + so + se); w.close(); sys.exit(1)
rc, so, se = core.go_build(w, src, os.path.join(w.dir, "p_go.bin"))
if rc != 0:
    print("go build failed:\n" + so + se); w.close(); sys.exit(2)
a = core.run_prog([os.path.join(w.dir, "p_go.bin")], stdin=stdin, timeout=300)
b = core.run_prog([os.path.join(w.dir, "p_llgo.bin")], stdin=stdin, timeout=300, interposer=True)
w.close()
bad = 0
for name, x, y in (("stdout", a.out, b.out), ("stderr", a.err, b.err)):
    fd = core.first_diff(x, y)
    if fd:
        bad = 1
        print("%s differs at line %d:\n  go:   %s\n  llgo: %s" % (name, fd[0] + 1, fd[1], fd[2]))
if (a.kind, a.rc) != (b.kind, b.rc):
    bad = 1
    print("termination differs: go %s rc=%s, llgo %s rc=%s" % (a.kind, a.rc, b.kind, b.rc))
print("REPLAY: %s" % ("still differs" if bad else "no difference"))
sys.exit(bad)

#!/bin/bash
# rig/mutant.sh <ID> <patch.diff> [tier]  — apply patch to a scratch worktree of /repo, run the check against it, clean up.
# exit 0 if the check FIRED (VIOLATION line), 1 if it stayed silent, 2 if the patch does not apply/build.
ID="$1"; P="$(readlink -f "$2")"; TIER="${3:-quick}"
V="$(cd "$(dirname "$0")/.." && pwd)"
WT="/tmp/wt-mut-$ID-$$"
git -C /repo worktree add -q --detach "$WT" HEAD || exit 2
trap 'git -C /repo worktree remove --force "$WT" >/dev/null 2>&1; rm -rf "$WT"' EXIT
if ! git -C "$WT" apply "$P"; then echo "MUTANT-RESULT $ID $(basename "$P") patch-does-not-apply"; exit 2; fi
S=$(date +%s)
VERIF_REPO="$WT" "$V/run" "$ID" "$TIER" > "$WT.log" 2>&1; rc=$?
E=$(( $(date +%s) - S ))
n=$(grep -c '^VIOLATION' "$WT.log")
first=$(grep -m1 -A1 '^VIOLATION' "$WT.log" | tail -1 | cut -c1-220)
echo "MUTANT-RESULT $ID $(basename "$P") rc=$rc violations=$n wall=${E}s :: $first"
[ "$rc" = 2 ] && tail -5 "$WT.log"
rm -f "$WT.log"
[ "$n" -gt 0 ] && exit 0 || exit 1

#!/bin/bash
# rig/seedcheck.sh <PROP> <seed-out-dir (contains patch.diff, demo/run.sh, meta.json)> <name>
# Confirms a seeded change (demo passes on the unchanged tree, fails with the patch; repository suite still passes),
# runs the property's quick check against it and stores everything under /verif/seeded/<name>/.
ID="$1"; SRC="$(readlink -f "$2")"; NAME="$3"
V="$(cd "$(dirname "$0")/.." && pwd)"
WT="/tmp/sc-$NAME-$$"
OUT="$V/seeded/$NAME"
mkdir -p "$OUT"
git -C /repo worktree add -q --detach "$WT" HEAD || exit 2
trap 'git -C /repo worktree remove --force "$WT" >/dev/null 2>&1; rm -rf "$WT" "$WT.log"' EXIT
R="$OUT/confirm.log"; : > "$R"
chmod +x "$SRC/demo/run.sh" 2>/dev/null
( cd "$SRC/demo" && timeout 3000 ./run.sh "$WT" ) >> "$R" 2>&1; d0=$?
echo "demo on unchanged tree: exit $d0" | tee -a "$R"
if ! git -C "$WT" apply "$SRC/patch.diff" 2>>"$R"; then echo "PATCH DOES NOT APPLY" | tee -a "$R"; exit 2; fi
( cd "$SRC/demo" && timeout 3000 ./run.sh "$WT" ) >> "$R" 2>&1; d1=$?
echo "demo with the change: exit $d1" | tee -a "$R"
# The root module's suite compiles only runtime (build.go) and runtime/abi from the separate `runtime` module
# (go list -deps -test ./...). A patch confined to other runtime/ packages cannot change any suite result.
if git -C "$WT" diff --name-only | grep -qvE '^runtime/(internal|_|[a-z0-9_]+/)' || git -C "$WT" diff --name-only | grep -qE '^runtime/abi/'; then
  VERIF_REPO="$WT" python3 "$V/rig/baseline.py" > "$WT.log" 2>&1; b=$?
  tail -3 "$WT.log" | tee -a "$R"
else
  b=0
  echo "baseline: patch touches only runtime/ packages that the root suite never compiles ($(git -C "$WT" diff --name-only | tr '\n' ' ')); suite result cannot change" | tee -a "$R"
fi
echo "baseline with the change: exit $b" | tee -a "$R"
S=$(date +%s)
VERIF_REPO="$WT" "$V/run" "$ID" quick > "$OUT/check-quick.log" 2>&1; rc=$?
E=$(( $(date +%s) - S ))
n=$(grep -c '^VIOLATION' "$OUT/check-quick.log")
echo "check $ID quick against the change: rc=$rc violations=$n wall=${E}s" | tee -a "$R"
grep -m3 -A2 '^VIOLATION' "$OUT/check-quick.log" | cut -c1-400 | tee -a "$R"
cp "$SRC/patch.diff" "$OUT/patch.diff"; rm -rf "$OUT/demo"; cp -r "$SRC/demo" "$OUT/demo"; cp "$SRC/meta.json" "$OUT/agent-meta.json"
python3 - "$OUT" "$ID" "$d0" "$d1" "$b" "$rc" "$n" "$E" <<'PY'
import json, sys
out, pid, d0, d1, b, rc, n, e = sys.argv[1:]
am = json.load(open(out + "/agent-meta.json"))
meta = {"property": pid, "breaks": am.get("summary"), "needs_to_manifest": am.get("needs_to_manifest"), "files_touched": am.get("files_touched"),
        "confirmed": {"demo_exit_unchanged_tree": int(d0), "demo_exit_with_change": int(d1), "baseline_exit_with_change": int(b),
                      "what_was_run": "rig/seedcheck.sh: demo/run.sh on a scratch worktree before and after `git apply patch.diff`; rig/baseline.py (repository suite vs BASELINE.json) on the patched worktree; ./run %s quick with VERIF_REPO=<patched worktree>" % pid},
        "check_result": {"quick_rc": int(rc), "violations": int(n), "wall_s": int(e), "caught": int(n) > 0}}
meta["kept"] = (int(d0) == 0 and int(d1) != 0 and int(b) == 0)
import os
if os.path.exists(out + "/meta.json"):
    try:
        prev = json.load(open(out + "/meta.json"))
        if prev.get("first_check_result") or not prev.get("check_result", {}).get("caught"):
            meta["first_check_result"] = prev.get("first_check_result") or prev.get("check_result")
        if prev.get("caught_after"):
            meta["caught_after"] = prev["caught_after"]
    except ValueError:
        pass
json.dump(meta, open(out + "/meta.json", "w"), indent=1)
print("SEED-RESULT %s kept=%s caught=%s" % (out, meta["kept"], meta["check_result"]["caught"]))
PY

"""Runs the repository's pinned suite with the verif guard OFF and compares with BASELINE.json."""
import json, os, subprocess, sys
sys.path.insert(0, os.path.dirname(os.path.abspath(__file__)))
import core
base = json.load(open("/root/.vp/BASELINE.json"))
want = set(base["stable_pass"])
env = core.base_env()
env.pop("LLVM_CONFIG", None)
env["PATH"] = os.path.join(core.GO124, "bin") + ":/usr/local/sbin:/usr/local/bin:/usr/sbin:/usr/bin:/sbin:/bin"
w = core.Work("baseline")
env["TMPDIR"] = w.tmp      # the suite leaves cgo-gcc-input-* / go-build* files behind
mf = core.protect_gomod(w)
p = subprocess.run(["go", "test", "-modfile=" + mf, "-json", "-vet=off", "-count=1", "-timeout", "25m", "./..."],
                   cwd=core.REPO, env=env, stdout=subprocess.PIPE, stderr=subprocess.DEVNULL)
passed = set()
for ln in p.stdout.decode("utf-8", "replace").splitlines():
    try:
        e = json.loads(ln)
    except ValueError:
        continue
    if e.get("Action") == "pass" and e.get("Test"):
        passed.add("%s::%s" % (e["Package"], e["Test"]))
# a test that is missing once is re-run alone (the pinned baseline itself is "stable over 3 runs";
# timing-sensitive tests such as test/std/sync TestCondBroadcast flake when the machine is overloaded)
for attempt in range(3):
    missing = sorted(want - passed)
    if not missing or len(missing) > 40:
        break
    bypkg = {}
    for m in missing:
        pk, t = m.split("::")
        bypkg.setdefault(pk, []).append(t.split("/")[0])
    for pk, ts in bypkg.items():
        rel = "./" + pk[len("github.com/goplus/llgo/"):]
        q = subprocess.run(["go", "test", "-modfile=" + mf, "-json", "-vet=off", "-count=1", "-timeout", "25m", "-p", "1",
                            "-run", "^(" + "|".join(sorted(set(ts))) + ")$", rel],
                           cwd=core.REPO, env=env, stdout=subprocess.PIPE, stderr=subprocess.DEVNULL)
        for ln in q.stdout.decode("utf-8", "replace").splitlines():
            try:
                e = json.loads(ln)
            except ValueError:
                continue
            if e.get("Action") == "pass" and e.get("Test"):
                passed.add("%s::%s" % (e["Package"], e["Test"]))
w.close()
missing = sorted(want - passed)
print("baseline: %d of %d stable tests pass (%d passed in total)" % (len(want & passed), len(want), len(passed)))
for m in missing[:40]:
    print("  MISSING " + m)
sys.exit(1 if missing else 0)

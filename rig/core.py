"""Common machinery for all checks: environment, llgo/go builds, supervised runs,
evidence, findings, verdict reporting.  Standard library only."""
import hashlib
import json
import os
import random
import shutil
import signal
import subprocess
import sys
import tempfile
import time
from concurrent.futures import ThreadPoolExecutor

V = os.path.dirname(os.path.dirname(os.path.abspath(__file__)))
TC = os.path.join(V, "toolchain")
REPO = os.environ.get("VERIF_REPO", "/repo")
MODCACHE = "/root/go/pkg/mod"
GO124 = os.path.join(MODCACHE, "golang.org/toolchain@v0.0.1-go1.24.0.linux-amd64")
GO126 = os.path.join(MODCACHE, "golang.org/toolchain@v0.0.1-go1.26.0.linux-amd64")
NCPU = os.cpu_count() or 4
T0 = time.time()


def _excepthook(t, v, tb):
    import traceback
    traceback.print_exception(t, v, tb)
    print("BROKEN-CHECK: internal error in the check machinery (not a verdict)", flush=True)
    os._exit(2)


sys.excepthook = _excepthook


def seed():
    try:
        return int(os.environ.get("VERIF_SEED", "1"))
    except ValueError:
        return 1


def base_env(go=GO124, extra=None):
    e = dict(os.environ)
    e["PATH"] = os.pathsep.join([os.path.join(go, "bin"), os.path.join(TC, "bin"),
                                 "/usr/local/sbin:/usr/local/bin:/usr/sbin:/usr/bin:/sbin:/bin"])
    e.update({
        "GOROOT": go, "GOTOOLCHAIN": "local", "GOFLAGS": "-mod=mod", "GOPROXY": "off",
        "GOSUMDB": "off", "GONOSUMDB": "*", "GONOSUMCHECK": "1", "GOWORK": "off",
        "LLVM_CONFIG": os.path.join(TC, "bin", "llvm-config"), "LLGO_ROOT": REPO,
        "GOCACHE": os.environ.get("VERIF_GOCACHE", "/root/.cache/go-build"),
        "GOMODCACHE": MODCACHE, "CGO_ENABLED": "1", "LC_ALL": "C",
    })
    for k in ("GOOS", "GOARCH", "GOEXPERIMENT"):
        e.pop(k, None)
    if extra:
        e.update(extra)
    return e


class Work:
    """Per-run scratch area under /verif/work/<name>; removed on close unless keep."""

    def __init__(self, name):
        self.dir = os.path.join(V, "work", "%s-%d" % (name, os.getpid()))
        shutil.rmtree(self.dir, ignore_errors=True)
        os.makedirs(self.dir)
        self.tmp = self.sub("tmp")
        self.xdg = self.sub("xdg")

    def sub(self, *p):
        d = os.path.join(self.dir, *p)
        os.makedirs(d, exist_ok=True)
        return d

    def env(self, go=GO124, extra=None):
        x = {"TMPDIR": self.tmp, "XDG_CACHE_HOME": self.xdg}
        if extra:
            x.update(extra)
        return base_env(go, x)

    def close(self):
        shutil.rmtree(self.dir, ignore_errors=True)


def sh(cmd, env=None, cwd=None, timeout=1800, stdin=None):
    """Run to completion; returns (rc, stdout, stderr) as text. rc=-999 on timeout."""
    try:
        p = subprocess.run(cmd, env=env, cwd=cwd, timeout=timeout, input=stdin,
                           stdout=subprocess.PIPE, stderr=subprocess.PIPE)
        return p.returncode, p.stdout.decode("utf-8", "replace"), p.stderr.decode("utf-8", "replace")
    except subprocess.TimeoutExpired as ex:
        return -999, (ex.stdout or b"").decode("utf-8", "replace"), (ex.stderr or b"").decode("utf-8", "replace")


_llgo_cache = {}


def build_llgo(work, race=False, repo=None, extra_overlay=None):
    """Builds cmd/llgo from the working tree of REPO (hooks on: tags llvm14,verif,dev).
    extra_overlay: {path inside repo: replacement file} - further `go build -overlay` replacements (nothing is written to repo)."""
    repo = repo or REPO
    key = (repo, race, json.dumps(extra_overlay, sort_keys=True))
    if key in _llgo_cache:
        return _llgo_cache[key]
    tag = ("" if repo == REPO else "-" + h(repo)) + ("-x" + h(json.dumps(extra_overlay, sort_keys=True)) if extra_overlay else "")
    ovl = os.path.join(work.dir, "llgo-overlay%s.json" % tag)
    with open(ovl, "w") as f:
        repl = {os.path.join(repo, "ssa", "zz_verif_llvm14.go"): os.path.join(TC, "ovl", "zz_verif_llvm14.go")}
        for rel, src in (extra_overlay or {}).items():
            repl[os.path.join(repo, rel)] = src
        json.dump({"Replace": repl}, f)
    out = os.path.join(work.dir, ("llgo-race" if race else "llgo") + tag)
    cmd = ["go", "build", "-tags", "llvm14,verif,dev", "-overlay", ovl, "-o", out]
    if race:
        cmd.append("-race")
    cmd.append("./cmd/llgo")
    modfile = protect_gomod(work, repo)
    cmd.insert(2, "-modfile=" + modfile)
    rc, so, se = sh(cmd, env=work.env(), cwd=repo, timeout=1500)
    if rc != 0:
        broken("cannot build llgo from %s:\n%s" % (repo, se[-3000:]))
    _llgo_cache[key] = out
    return out


def protect_gomod(work, repo=None):
    """-mod=mod may rewrite go.mod/go.sum; use a private copy so /repo stays untouched."""
    repo = repo or REPO
    d = work.sub("modfile")
    mf = os.path.join(d, "go.mod")
    if not os.path.exists(mf):
        shutil.copy(os.path.join(repo, "go.mod"), mf)
        shutil.copy(os.path.join(repo, "go.sum"), os.path.join(d, "go.sum"))
    return mf


def llgo_build(work, llgo, srcdir, out, tags=None, extra_env=None, pkg=".", timeout=900, flags=None, opt="-O0"):
    cmd = [llgo, "build", opt, "-o", out]
    if tags:
        cmd += ["-tags", tags]
    if flags:
        cmd += flags
    cmd.append(pkg)
    env = work.env(extra={"GOMAXPROCS": "2"})
    if extra_env:
        env.update(extra_env)
    return sh(cmd, env=env, cwd=srcdir, timeout=timeout)


def go_build(work, srcdir, out, go=GO124, tags=None, pkg=".", timeout=900, extra_env=None):
    cmd = ["go", "build", "-o", out]
    if tags:
        cmd += ["-tags", tags]
    cmd.append(pkg)
    env = work.env(go=go, extra={"GOMAXPROCS": "2"})
    if extra_env:
        env.update(extra_env)
    return sh(cmd, env=env, cwd=srcdir, timeout=timeout)


def write_module(d, files, modname="vmod", gover="1.24"):
    os.makedirs(d, exist_ok=True)
    with open(os.path.join(d, "go.mod"), "w") as f:
        f.write("module %s\n\ngo %s\n" % (modname, gover))
    for rel, txt in files.items():
        p = os.path.join(d, rel)
        os.makedirs(os.path.dirname(p), exist_ok=True)
        with open(p, "w") as f:
            f.write(txt)


# ---------------------------------------------------------------- supervised runs

def _task_state(pid):
    """(all_sleeping, cpu_ticks, ctx_switches) over all tasks of pid."""
    tot = 0
    ctx = 0
    sleeping = True
    try:
        tids = os.listdir("/proc/%d/task" % pid)
    except OSError:
        return None
    for t in tids:
        try:
            with open("/proc/%d/task/%s/stat" % (pid, t)) as f:
                s = f.read()
            rest = s[s.rindex(")") + 2:].split()
            st = rest[0]
            tot += int(rest[11]) + int(rest[12])
            if st not in ("S", "D", "T", "t", "Z", "X", "I"):
                sleeping = False
            with open("/proc/%d/task/%s/status" % (pid, t)) as f:
                for ln in f:
                    if ln.startswith("voluntary_ctxt_switches") or ln.startswith("nonvoluntary_ctxt_switches"):
                        ctx += int(ln.split()[1])
        except (OSError, ValueError, IndexError):
            continue
    return sleeping, tot, ctx


class RunResult:
    __slots__ = ("rc", "out", "err", "kind", "wall")

    def __init__(self, rc, out, err, kind, wall):
        self.rc, self.out, self.err, self.kind, self.wall = rc, out, err, kind, wall


def run_prog(cmd, stdin=None, env=None, timeout=60, cwd=None, interposer=False, quiesce=True, max_out=64 << 20):
    """Runs a compiled program under the supervisor.
    kind: 'exit' | 'signal' | 'deadlock' (quiescent: logical verdict) | 'timeout' (inconclusive)."""
    e = dict(env) if env else dict(os.environ)
    if interposer:
        e["LD_PRELOAD"] = os.path.join(TC, "lib", "memcpy_overlap.so")
    fo = tempfile.TemporaryFile()
    fe = tempfile.TemporaryFile()
    t0 = time.time()
    p = subprocess.Popen(cmd, stdin=subprocess.PIPE if stdin is not None else subprocess.DEVNULL,
                         stdout=fo, stderr=fe, env=e, cwd=cwd, start_new_session=True)
    if stdin is not None:
        try:
            p.stdin.write(stdin if isinstance(stdin, bytes) else stdin.encode())
            p.stdin.close()
        except BrokenPipeError:
            pass
    kind = None
    last = None
    still = 0
    next_sample = t0 + 1.0
    while True:
        try:
            p.wait(timeout=0.05 if time.time() - t0 < 1 else 0.25)
            break
        except subprocess.TimeoutExpired:
            pass
        now = time.time()
        if quiesce and now >= next_sample:
            next_sample = now + 0.5
            st = _task_state(p.pid)
            if st is not None and st[0] and last is not None and st[1:] == last[1:] and last[0]:
                still += 1
            else:
                still = 0
            last = st
            if still >= 4:
                kind = "deadlock"
        if kind is None and now - t0 > timeout:
            kind = "timeout"
        if kind:
            try:
                os.killpg(p.pid, signal.SIGKILL)
            except OSError:
                pass
            p.wait()
            break
    wall = time.time() - t0
    fo.seek(0)
    fe.seek(0)
    out = fo.read(max_out).decode("utf-8", "replace")
    err = fe.read(max_out).decode("utf-8", "replace")
    fo.close()
    fe.close()
    rc = p.returncode
    if kind is None:
        kind = "signal" if rc < 0 else "exit"
    return RunResult(rc, out, err, kind, wall)


def pmap(fn, items, workers=None):
    workers = workers or NCPU
    with ThreadPoolExecutor(max_workers=workers) as ex:
        return list(ex.map(fn, items))


# ---------------------------------------------------------------- panic normalisation

PANIC_CLASSES = [
    ("index out of range", "index"),
    ("slice bounds out of range", "slicebounds"),
    ("nil pointer dereference", "nilderef"),
    ("invalid memory address", "nilderef"),
    ("integer divide by zero", "divide"),
    ("negative shift amount", "negshift"),
    ("interface conversion", "typeassert"),
    ("assignment to entry in nil map", "nilmap"),
    ("send on closed channel", "sendclosed"),
    ("close of closed channel", "closeclosed"),
    ("close of nil channel", "closenil"),
    ("makeslice: len out of range", "makeslice"),
    ("makeslice: cap out of range", "makeslice"),
    ("makechan: size out of range", "makechan"),
    ("makemap", "makemap"),
    ("hash of unhashable type", "unhashable"),
    ("comparing uncomparable", "uncomparable"),
    ("cannot convert slice with length", "slice2array"),
    ("all goroutines are asleep", "deadlock"),
]


def panic_class(msg):
    for k, c in PANIC_CLASSES:
        if k in msg:
            return c
    return "other:" + msg.strip()[:60]


# ---------------------------------------------------------------- verdicts & evidence

class Check:
    """Bookkeeping of one check run: findings, violations, evidence, exit code."""

    def __init__(self, pid, level="exploration"):
        self.pid = pid
        self.level = level
        self.tier = os.environ.get("VERIF_TIER") or (sys.argv[2] if len(sys.argv) > 2 else "quick")
        if self.tier not in ("quick", "thorough"):
            self.tier = "quick"
        self.seed = seed()
        self.rng = random.Random(self.seed * 1000003 + sum(ord(c) for c in pid))
        self.violations = []
        self.known_seen = []
        self.inconclusive = 0
        self.cov = {"evaluations": 0, "distinct_nontrivial": 0, "rule": "", "samples": []}
        self.assumptions = []
        self.sigs = set()
        self.work = Work(pid)
        self.findings = [f for f in load_findings() if f["property"] == pid]
        self.t0 = time.time()

    # --- findings
    def open_findings(self):
        return [f for f in self.findings if f.get("status") == "open"]

    def known(self, fid, what):
        """Report that the probe of an open finding still fails."""
        for f in self.open_findings():
            if f["id"] == fid:
                line = "KNOWN-FINDING: property=%s %s [%s]" % (self.pid, f["what"], fid)
                if line not in self.known_seen:
                    self.known_seen.append(line)
                    print(line, flush=True)
                return True
        return False

    def is_open(self, fid):
        return any(f["id"] == fid for f in self.open_findings())

    # --- violations
    def violation(self, name, files, summary):
        """files: {relpath: text}. Creates replay dir, prints VIOLATION line."""
        d = os.path.join(V, "replays", "%s-%s-s%d-%s" % (self.pid, self.tier, self.seed, name))
        shutil.rmtree(d, ignore_errors=True)
        os.makedirs(d, exist_ok=True)
        for rel, txt in files.items():
            p = os.path.join(d, rel)
            os.makedirs(os.path.dirname(p), exist_ok=True)
            mode = "wb" if isinstance(txt, bytes) else "w"
            with open(p, mode) as f:
                f.write(txt)
        with open(os.path.join(d, "SUMMARY.txt"), "w") as f:
            f.write(summary + "\n")
        self.violations.append({"name": name, "replay": d, "summary": summary[:400]})
        print("VIOLATION property=%s replay=%s" % (self.pid, d), flush=True)
        print("  " + summary.replace("\n", "\n  ")[:1500], flush=True)

    def sig(self, s):
        self.sigs.add(s)

    def sample(self, s, limit=3):
        if len(self.cov["samples"]) < limit:
            self.cov["samples"].append(s)

    def finish(self, floor_eval=1, floor_distinct=2):
        self.cov["distinct_nontrivial"] = max(self.cov.get("distinct_nontrivial", 0), len(self.sigs))
        self.cov["inconclusive"] = self.inconclusive
        self.cov["known_findings_seen"] = self.known_seen
        ev = {
            "property_id": self.pid, "tier": self.tier, "seed": self.seed, "level": self.level,
            "coverage": self.cov, "assumptions": self.assumptions,
            "wall_s": round(time.time() - self.t0, 2), "violations": len(self.violations),
        }
        if self.violations:
            ev["coverage"]["violation_list"] = self.violations[:20]
        # evidence/ describes runs against /repo itself; runs against a scratch worktree (mutants, seeded changes)
        # or reduced development runs must not overwrite it
        edir = "evidence" if (REPO == "/repo" and not os.environ.get("VERIF_SCRATCH_EVIDENCE")) else os.path.join("work", "evidence-scratch")
        os.makedirs(os.path.join(V, edir), exist_ok=True)
        path = os.path.join(V, edir, self.pid + ".json")
        with open(path + ".tmp", "w") as f:
            json.dump(ev, f, indent=1, sort_keys=True, default=str)
        os.replace(path + ".tmp", path)
        if not os.environ.get("VERIF_KEEP_WORK"):
            self.work.close()
        if self.violations:
            print("%s: %d violation(s)" % (self.pid, len(self.violations)))
            sys.exit(1)
        if self.cov["evaluations"] < floor_eval or self.cov["distinct_nontrivial"] < floor_distinct:
            print("BROKEN-CHECK %s: observed too little (evaluations=%d distinct=%d)" % (
                self.pid, self.cov["evaluations"], self.cov["distinct_nontrivial"]))
            sys.exit(2)
        print("%s %s seed=%d: held on %d evaluations (%d distinct), %d inconclusive, %d known findings, %.0fs" % (
            self.pid, self.tier, self.seed, self.cov["evaluations"], self.cov["distinct_nontrivial"],
            self.inconclusive, len(self.known_seen), time.time() - self.t0))
        sys.exit(0)


def broken(msg):
    print("BROKEN-CHECK: " + msg, flush=True)
    sys.exit(2)


def load_findings():
    """known findings live in /verif/findings/<ID>.json: {"findings":[{property,id,status,what,classes,probe,commit?}]}"""
    out = []
    d = os.path.join(V, "findings")
    for fn in sorted(os.listdir(d)) if os.path.isdir(d) else []:
        if fn.endswith(".json"):
            with open(os.path.join(d, fn)) as f:
                out += json.load(f).get("findings", [])
    return out


def h(s):
    return hashlib.sha1(s.encode() if isinstance(s, str) else s).hexdigest()[:12]


def first_diff(a, b):
    """index and pair of first differing line of two texts"""
    la, lb = a.split("\n"), b.split("\n")
    for i in range(max(len(la), len(lb))):
        x = la[i] if i < len(la) else "<EOF>"
        y = lb[i] if i < len(lb) else "<EOF>"
        if x != y:
            return i, x, y
    return None

"""Regenerates the generated parts of DESIGN.md (between <!-- BEGIN:x --> / <!-- END:x --> markers):
findings table (from findings/*.json), seeded-change table (from seeded/*/meta.json), mutant table (mutants/*/README.md names)."""
import json, os, re, glob
V = os.path.dirname(os.path.dirname(os.path.abspath(__file__)))


def findings_table():
    rows = ["| property | finding | status | commit | what fails |", "|---|---|---|---|---|"]
    for fn in sorted(glob.glob(os.path.join(V, "findings", "*.json"))):
        for f in json.load(open(fn)).get("findings", []):
            what = re.sub(r"^fixed: property=\S+ \S+ ", "", f["what"]).replace("|", "\\|").replace("\n", " ")
            rows.append("| %s | %s | %s | %s | %s |" % (f["property"], f["id"], f["status"], f.get("commit", ""), what[:420]))
    return "\n".join(rows)


def seeded_table():
    rows = ["| seeded change | property | what it needs to manifest | confirmed (demo clean / demo changed / suite) | caught by `./run <ID> quick` |", "|---|---|---|---|---|"]
    for d in sorted(glob.glob(os.path.join(V, "seeded", "*", "meta.json"))):
        m = json.load(open(d))
        c = m.get("confirmed", {})
        cr = m.get("check_result", {})
        caught = "yes (%d violations, %ds)" % (cr.get("violations", 0), cr.get("wall_s", 0)) if cr.get("caught") else "NO"
        if m.get("caught_after"):
            caught += " — " + m["caught_after"]
        rows.append("| %s | %s | %s | %s / %s / %s | %s |" % (
            os.path.basename(os.path.dirname(d)), m.get("property"), str(m.get("needs_to_manifest", "")).replace("|", "\\|").replace("\n", " ")[:300],
            c.get("demo_exit_unchanged_tree"), c.get("demo_exit_with_change"), c.get("baseline_exit_with_change"), caught))
    return "\n".join(rows)


def checks_table():
    reg = {}
    for fn in sorted(glob.glob(os.path.join(V, "checks", "registry.d", "*.json"))):
        reg[os.path.basename(fn)[:-5]] = json.load(open(fn))
    rows = ["| id | engine | level | last evidence (tier: evaluations / distinct) | findings open / fixed | hand mutants | seeded changes caught |", "|---|---|---|---|---|---|---|"]
    for pid in sorted(reg):
        r = reg[pid]
        ev = ""
        ep = os.path.join(V, "evidence", pid + ".json")
        if os.path.exists(ep):
            e = json.load(open(ep))
            ev = "%s: %s / %s" % (e.get("tier"), e["coverage"].get("evaluations"), e["coverage"].get("distinct_nontrivial"))
        fo = ff = 0
        fp = os.path.join(V, "findings", pid + ".json")
        if os.path.exists(fp):
            for f in json.load(open(fp)).get("findings", []):
                if f["status"] == "open":
                    fo += 1
                else:
                    ff += 1
        nm = len(glob.glob(os.path.join(V, "mutants", pid, "*.diff")))
        seeds = [json.load(open(m)) for m in sorted(glob.glob(os.path.join(V, "seeded", pid + "-*", "meta.json")))]
        kept = [m for m in seeds if m.get("kept")]
        caught = [m for m in kept if m.get("check_result", {}).get("caught") or m.get("caught_after")]
        rows.append("| %s | %s | %s | %s | %d / %d | %d | %d of %d |" % (pid, r.get("engine"), r.get("level"), ev, fo, ff, nm, len(caught), len(kept)))
    return "\n".join(rows)


def main():
    p = os.path.join(V, "DESIGN.md")
    s = open(p).read()
    for key, fn in (("findings", findings_table), ("seeded", seeded_table), ("checks", checks_table)):
        b, e = "<!-- BEGIN:%s -->" % key, "<!-- END:%s -->" % key
        if b in s and e in s:
            s = s[:s.index(b) + len(b)] + "\n" + fn() + "\n" + s[s.index(e):]
    open(p, "w").write(s)


if __name__ == "__main__":
    main()

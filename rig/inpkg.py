"""E2: run a property monitor that is compiled INTO a real /repo package via `go test -overlay`.

The Go test file lives in /verif/inpkg/<name>_test.go.  It reads VERIF_SEED, VERIF_TIER and
writes a JSON report to $VERIF_STATS:
  {"evaluations": N, "distinct": M, "rule": "...", "samples": [...], "extra": {...},
   "failures": [{"class": "<narrow class>", "name": "<short id>", "summary": "...",
                 "files": {"relpath": "text"}}]}
A failure whose class is listed in an OPEN entry of known_findings.json (field "classes")
is reported as KNOWN-FINDING, everything else as VIOLATION.
"""
import json
import os
import sys

sys.path.insert(0, os.path.dirname(os.path.abspath(__file__)))
import core


def run_inpkg(chk, injections, pkg, run_regex, race=False, tags="llvm14,verif", timeout=3000, extra_env=None,
              extra_files=None, go=None, pkgname=None):
    """injections: {relpath inside repo: path of source file in /verif}.  Returns report dict."""
    w = chk.work
    repl = {}
    for rel, src in injections.items():
        repl[os.path.join(core.REPO, rel)] = src
    # shared report helper, instantiated for the package (pkgname=None -> last path element)
    pkgdir = pkg[2:] if pkg.startswith("./") else pkg
    pname = pkgname or os.path.basename(pkgdir)
    helper = os.path.join(w.dir, "zz_verif_report_%s_test.go" % pname)
    with open(os.path.join(core.V, "inpkg", "report.go.tmpl")) as f:
        txt = f.read().replace("package PKGNAME", "package " + pname)
    with open(helper, "w") as f:
        f.write(txt)
    repl[os.path.join(core.REPO, pkgdir, "zz_verif_report_test.go")] = helper
    ovl = os.path.join(w.dir, "inpkg-overlay-%s.json" % core.h(pkg + run_regex))
    with open(ovl, "w") as f:
        json.dump({"Replace": repl}, f)
    stats = os.path.join(w.dir, "stats-%s.json" % core.h(pkg + run_regex))
    if os.path.exists(stats):
        os.remove(stats)
    mf = core.protect_gomod(w)
    cmd = ["go", "test", "-modfile=" + mf, "-tags", tags, "-overlay", ovl, "-count=1", "-vet=off",
           "-timeout", "%ds" % timeout, "-run", run_regex]
    if race:
        cmd.append("-race")
    cmd.append(pkg)
    env = w.env(go=go or core.GO124, extra={"VERIF_SEED": str(chk.seed), "VERIF_TIER": chk.tier, "VERIF_STATS": stats,
                         "VERIF_DIR": core.V, "VERIF_WORK": w.dir})
    if race:
        env["GORACE"] = "halt_on_error=0 log_path=" + os.path.join(w.dir, "race.log")
    if extra_env:
        env.update(extra_env)
    rc, so, se = core.sh(cmd, env=env, cwd=core.REPO, timeout=timeout + 60)
    rep = None
    if os.path.exists(stats):
        with open(stats) as f:
            rep = json.load(f)
    races = 0
    race_text = ""
    for fn in os.listdir(w.dir):
        if fn.startswith("race.log"):
            t = open(os.path.join(w.dir, fn)).read()
            races += t.count("WARNING: DATA RACE")
            race_text += t
    return rc, so + se, rep, races, race_text


def absorb(chk, rep, out, rc, label=""):
    """Turn a Go-side report into violations / known findings / coverage on chk."""
    if rep is None:
        core.broken("%s: in-package monitor produced no report (rc=%s)\n%s" % (chk.pid, rc, out[-3000:]))
    chk.cov["evaluations"] += int(rep.get("evaluations", 0))
    for s in (rep.get("signatures") or []):
        chk.sig(s)
    if "distinct" in rep and not rep.get("signatures"):
        chk.cov["distinct_nontrivial"] = chk.cov.get("distinct_nontrivial", 0) + int(rep["distinct"])
    if rep.get("rule"):
        chk.cov["rule"] = (chk.cov["rule"] + " | " if chk.cov["rule"] else "") + rep["rule"]
    for s in (rep.get("samples") or [])[:3]:
        chk.sample(s, limit=6)
    for k, v in (rep.get("extra") or {}).items():
        chk.cov[(label + "_" if label else "") + k] = v
    open_classes = {}
    for f in chk.open_findings():
        for c in f.get("classes", []):
            open_classes[c] = f
    seen = 0
    for fl in (rep.get("failures") or []):
        cls = fl.get("class", "")
        f = open_classes.get(cls)
        if f is not None:
            chk.known(f["id"], f["what"])
            continue
        seen += 1
        if seen > 8:
            continue
        files = dict(fl.get("files") or {})
        files["failure.json"] = json.dumps(fl, indent=1)
        chk.violation(core.h(cls + fl.get("name", "")), files, "[%s] %s: %s" % (cls, fl.get("name", ""), fl.get("summary", "")))
    if rc != 0 and not rep.get("failures"):
        # the test binary itself failed/crashed without recording a failure
        core.broken("%s: go test exited %s without recorded failures\n%s" % (chk.pid, rc, out[-3000:]))

#!/bin/bash
# rig/seedq.sh — sequential runner: pops "PROP DIR NAME" lines from work/seedq and runs rig/seedcheck.sh on each.
V="$(cd "$(dirname "$0")/.." && pwd)"; Q="$V/work/seedq"; touch "$Q"
while true; do
  line=$(flock "$Q.lock" sh -c 'l=$(head -1 "$0"); [ -n "$l" ] && sed -i 1d "$0"; echo "$l"' "$Q")
  if [ -z "$line" ]; then sleep 20; [ -f "$V/work/seedq.stop" ] && exit 0; continue; fi
  set -- $line
  "$V/rig/seedcheck.sh" "$1" "$2" "$3" > "$V/work/seed-$3.log" 2>&1
  tail -1 "$V/work/seed-$3.log" >> "$V/work/seedq.done"
done

"""setup self-test: build llgo from /repo, compile and run hello-world with llgo and go."""
import os, sys
sys.path.insert(0, os.path.dirname(os.path.abspath(__file__)))
import core

w = core.Work("selftest")
llgo = core.build_llgo(w)
d = w.sub("hello")
core.write_module(d, {"main.go": 'package main\n\nimport "fmt"\n\nfunc main() {\n\tm := map[string]int{"a": 1}\n\tch := make(chan int, 1)\n\tgo func() { ch <- m["a"] }()\n\tfmt.Println("hello", <-ch)\n}\n'})
rc, so, se = core.llgo_build(w, llgo, d, os.path.join(d, "h_llgo.bin"))
if rc != 0:
    print(so, se); sys.exit("llgo build failed")
r = core.run_prog([os.path.join(d, "h_llgo.bin")], interposer=True)
assert r.out == "hello 1\n", (r.out, r.err, r.rc)
for go in (core.GO124, core.GO126):
    rc, so, se = core.go_build(w, d, os.path.join(d, "h_go.bin"), go=go)
    assert rc == 0, se
    r = core.run_prog([os.path.join(d, "h_go.bin")])
    assert r.out == "hello 1\n"
w.close()
print("selftest ok")

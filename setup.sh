#!/bin/bash
# setup_cmd: builds the substitute toolchain (shims, libuv.so, interposer) under
# /verif/toolchain from files on disk only. Idempotent.
set -euo pipefail
V="$(cd "$(dirname "$0")" && pwd)"
TC="${VERIF_TC:-$V/toolchain}"
SRC="$V/tc/src"
mkdir -p "$TC/bin" "$TC/include" "$TC/lib" "$V/evidence" "$V/work" "$V/replays"

for n in clang++ llvm-config pkg-config; do
  sed "s#@TC@#$TC#g" "$SRC/$n.sh" > "$TC/bin/$n"
  chmod +x "$TC/bin/$n"
done
# clang (C driver) shim: same wrapper, different binary
sed -e "s#@TC@#$TC#g" -e 's#/usr/bin/clang++-14#/usr/bin/clang-14#g' "$SRC/clang++.sh" > "$TC/bin/clang"
chmod +x "$TC/bin/clang"
for t in /usr/lib/llvm-14/bin/*; do
  b=$(basename "$t")
  case "$b" in clang|clang++|llvm-config) continue;; esac
  ln -sf "$t" "$TC/bin/$b"
done

cp "$SRC/libunwind.h" "$TC/include/libunwind.h"
ln -sf /usr/include/node/uv.h "$TC/include/uv.h"
ln -sfn /usr/include/node/uv "$TC/include/uv"
ln -sf /usr/lib/x86_64-linux-gnu/libgc.so.1 "$TC/lib/libgc.so"
ln -sf /usr/lib/x86_64-linux-gnu/libunwind.so.8 "$TC/lib/libunwind.so"
if [ ! -s "$TC/lib/libuv.so.1" ]; then
  gcc -shared -o "$TC/lib/libuv.so.1" -Wl,-soname,libuv.so.1 -Wl,--whole-archive \
    /opt/veriftools/lean-4.33.0-linux/lib/libuv.a -Wl,--no-whole-archive -lpthread -ldl -lrt
fi
ln -sf libuv.so.1 "$TC/lib/libuv.so"
gcc -O2 -shared -fPIC -o "$TC/lib/memcpy_overlap.so" "$SRC/memcpy_overlap.c" -ldl

# overlay that adds the LLVM-14 opaque-pointer switch (file lives only in /verif)
mkdir -p "$TC/ovl"
cp "$SRC/zz_verif_llvm14.go" "$TC/ovl/zz_verif_llvm14.go"

# gofail / other helper binaries are built lazily by the checks that need them.
if [ -z "${VERIF_TC:-}" ]; then python3 "$V/rig/selftest.py"; fi
echo "setup ok"

// Package race stands in for internal/race (detector disabled).
package race

import "unsafe"

const Enabled = false

func Acquire(unsafe.Pointer)                      {}
func Release(unsafe.Pointer)                      {}
func ReleaseMerge(unsafe.Pointer)                 {}
func Disable()                                    {}
func Enable()                                     {}
func Read(unsafe.Pointer)                         {}
func Write(unsafe.Pointer)                        {}
func ReadRange(unsafe.Pointer, int)               {}
func WriteRange(unsafe.Pointer, int)              {}
func Errors() int                                 { return 0 }

// Package yatomic stands in for sync/atomic inside the copied Go sync sources: every atomic
// operation is a scheduling point of the controllable scheduler, then the real atomic runs.
package yatomic

import (
	"sync/atomic"

	"schedharness/vs"
)

func AddInt32(p *int32, d int32) int32 { vs.YieldFrom(); return atomic.AddInt32(p, d) }
func CompareAndSwapInt32(p *int32, o, n int32) bool {
	vs.YieldFrom()
	return atomic.CompareAndSwapInt32(p, o, n)
}
func LoadInt32(p *int32) int32     { vs.YieldFrom(); return atomic.LoadInt32(p) }
func StoreInt32(p *int32, v int32) { vs.YieldFrom(); atomic.StoreInt32(p, v) }
func LoadUint32(p *uint32) uint32  { vs.YieldFrom(); return atomic.LoadUint32(p) }
func CompareAndSwapUintptr(p *uintptr, o, n uintptr) bool {
	vs.YieldFrom()
	return atomic.CompareAndSwapUintptr(p, o, n)
}
func LoadUintptr(p *uintptr) uintptr { vs.YieldFrom(); return atomic.LoadUintptr(p) }

type Int32 struct{ v atomic.Int32 }

func (x *Int32) Load() int32           { vs.YieldFrom(); return x.v.Load() }
func (x *Int32) Store(v int32)         { vs.YieldFrom(); x.v.Store(v) }
func (x *Int32) Add(d int32) int32     { vs.YieldFrom(); return x.v.Add(d) }
func (x *Int32) Swap(n int32) int32    { vs.YieldFrom(); return x.v.Swap(n) }
func (x *Int32) CompareAndSwap(o, n int32) bool {
	vs.YieldFrom()
	return x.v.CompareAndSwap(o, n)
}
func (x *Int32) Peek() int32 { return x.v.Load() } // monitor side, no yield

type Uint32 struct{ v atomic.Uint32 }

func (x *Uint32) Load() uint32        { vs.YieldFrom(); return x.v.Load() }
func (x *Uint32) Store(v uint32)      { vs.YieldFrom(); x.v.Store(v) }
func (x *Uint32) Add(d uint32) uint32 { vs.YieldFrom(); return x.v.Add(d) }
func (x *Uint32) CompareAndSwap(o, n uint32) bool {
	vs.YieldFrom()
	return x.v.CompareAndSwap(o, n)
}

type Uint64 struct{ v atomic.Uint64 }

func (x *Uint64) Load() uint64        { vs.YieldFrom(); return x.v.Load() }
func (x *Uint64) Store(v uint64)      { vs.YieldFrom(); x.v.Store(v) }
func (x *Uint64) Add(d uint64) uint64 { vs.YieldFrom(); return x.v.Add(d) }
func (x *Uint64) CompareAndSwap(o, n uint64) bool {
	vs.YieldFrom()
	return x.v.CompareAndSwap(o, n)
}
func (x *Uint64) Peek() uint64 { return x.v.Load() }

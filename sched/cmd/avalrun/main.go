// avalrun: E3 leg of C11 for sync/atomic.Value (llgo's own value.go). A Load must return nil (nothing stored yet)
// or exactly one of the values passed to Store/Swap/CompareAndSwap - never a mixture of two stores or a
// half-finished first store; Swap/CompareAndSwap results must be consistent with one total order of the writes.
package main

import (
	"encoding/json"
	"flag"
	"fmt"
	"hash/fnv"
	"math/rand"
	"os"
	"unsafe"

	"schedharness/aval"
	"schedharness/vs"
)

type T struct{ A, B int }

type Failure struct {
	Class  string   `json:"class"`
	Detail string   `json:"detail"`
	Seed   int64    `json:"seed"`
	Kind   string   `json:"kind"`
	Trace  []int32  `json:"trace"`
	Log    []string `json:"log"`
}

type result struct {
	fails []Failure
	s     *vs.Sched
	log   []string
	ops   int
}

func run(seed int64, trace []int32) *result {
	r := rand.New(rand.NewSource(seed*1000003 + 41))
	res := &result{}
	var s *vs.Sched
	if trace != nil {
		s = vs.NewReplay(trace)
	} else {
		s = vs.New(seed*7919 + 13)
	}
	switch r.Intn(3) {
	case 1:
		s.SetPCT(1+r.Intn(3), 60)
	case 2:
		s.Strat = vs.RoundRobin
	}
	vs.S = s
	res.s = s
	nw := 1 + r.Intn(2)
	nr := 1 + r.Intn(3)
	nops := 1 + r.Intn(3)
	ptrMode := r.Intn(2) == 0 // store *T (pointer-shaped) or T (boxed value)
	var v aval.Value
	stored := map[int]bool{} // ids of values whose store has started
	fail := func(class, format string, a ...interface{}) {
		if len(res.fails) < 3 {
			res.fails = append(res.fails, Failure{Class: class, Detail: fmt.Sprintf(format, a...), Seed: seed, Kind: "aval"})
		}
	}
	logf := func(format string, a ...interface{}) {
		res.log = append(res.log, fmt.Sprintf("%d: ", s.Steps)+fmt.Sprintf(format, a...))
	}
	// check validates a loaded value WITHOUT formatting it first (a torn interface may hold a nil data word)
	check := func(who string, got any) string {
		if got == nil {
			return "nil"
		}
		w := (*[2]unsafe.Pointer)(unsafe.Pointer(&got))
		if w[1] == nil {
			fail("value-torn", "%s: Load returned a non-nil interface whose data word is nil - a value nobody stored (half-finished first store)", who)
			return "TORN(type set, data nil)"
		}
		var t *T
		switch x := got.(type) {
		case *T:
			t = x
		case T:
			t = &x
		default:
			fail("value-foreign-type", "%s: Load returned a value of a type that was never stored", who)
			return "FOREIGN"
		}
		if t.B != -t.A || !stored[t.A] {
			fail("value-torn", "%s: Load returned {%d,%d}, which is not a value whose store had started", who, t.A, t.B)
		}
		return fmt.Sprintf("{%d,%d}", t.A, t.B)
	}
	next := 0
	for w := 0; w < nw; w++ {
		w := w
		s.Go(func(th *vs.T) {
			for k := 0; k < nops; k++ {
				res.ops++
				next++
				id := next
				stored[id] = true
				var val any = T{id, -id}
				if ptrMode {
					val = &T{id, -id}
				}
				switch r.Intn(3) {
				case 0:
					logf("W%d Store(%d)", w, id)
					v.Store(val)
				case 1:
					logf("W%d Swap(%d)", w, id)
					old := v.Swap(val)
					check(fmt.Sprintf("W%d Swap", w), old)
				default:
					logf("W%d CompareAndSwap(nil,%d)", w, id)
					v.CompareAndSwap(nil, val)
				}
			}
		})
	}
	for rd := 0; rd < nr; rd++ {
		rd := rd
		s.Go(func(th *vs.T) {
			for k := 0; k < nops+1; k++ {
				res.ops++
				got := v.Load()
				logf("R%d Load -> %s", rd, check(fmt.Sprintf("R%d", rd), got))
			}
		})
	}
	s.Run()
	if s.Stuck {
		fail("value-stuck", "threads remain blocked/spinning in atomic.Value operations: %s", s.Describe())
	}
	return res
}

type Report struct {
	Runs        int            `json:"runs"`
	Distinct    int            `json:"distinct_schedules"`
	Ops         int            `json:"operations"`
	Steps       int            `json:"scheduler_steps"`
	StepLimit   int            `json:"step_limit_inconclusive"`
	Stuck       int            `json:"quiescent_allowed"`
	ByKind      map[string]int `json:"runs_by_kind"`
	Sites       map[string]int `json:"yield_sites"`
	ClassCounts map[string]int `json:"failure_class_counts"`
	Failures    []Failure      `json:"failures"`
	Sample      []string       `json:"sample_log"`
}

func main() {
	from := flag.Int64("from", 0, "first seed")
	n := flag.Int64("n", 1000, "number of runs")
	out := flag.String("out", "", "report file")
	replay := flag.String("replay", "", "failure file to replay")
	flag.Parse()
	if *replay != "" {
		b, _ := os.ReadFile(*replay)
		var f Failure
		json.Unmarshal(b, &f)
		res := run(f.Seed, f.Trace)
		for _, l := range res.log {
			fmt.Println(l)
		}
		hit := false
		for _, x := range res.fails {
			fmt.Printf("FINDING %s: %s\n", x.Class, x.Detail)
			hit = hit || x.Class == f.Class
		}
		if hit {
			fmt.Println("REPLAY: violation reproduced")
			os.Exit(1)
		}
		fmt.Println("REPLAY: recorded class not reproduced")
		os.Exit(0)
	}
	rep := Report{ByKind: map[string]int{}, Sites: map[string]int{}, ClassCounts: map[string]int{}}
	seen := map[uint64]bool{}
	for seed := *from; seed < *from+*n; seed++ {
		res := run(seed, nil)
		rep.Runs++
		rep.ByKind["atomic.Value"]++
		rep.Ops += res.ops
		rep.Steps += res.s.Steps
		h := fnv.New64a()
		fmt.Fprint(h, res.log)
		for _, d := range res.s.Trace {
			h.Write([]byte{byte(d), byte(d >> 8)})
		}
		seen[h.Sum64()] = true
		for k, v := range res.s.Sites {
			rep.Sites[k] += v
		}
		if res.s.StepLim {
			rep.StepLimit++
			continue
		}
		if rep.Sample == nil && len(res.log) > 5 && len(res.fails) == 0 {
			rep.Sample = res.log
		}
		cls := map[string]bool{}
		for _, f := range res.fails {
			if cls[f.Class] {
				continue
			}
			cls[f.Class] = true
			rep.ClassCounts[f.Class]++
			if rep.ClassCounts[f.Class] <= 3 {
				f.Trace = res.s.Trace
				f.Log = res.log
				rep.Failures = append(rep.Failures, f)
			}
		}
	}
	rep.Distinct = len(seen)
	b, _ := json.MarshalIndent(rep, "", " ")
	if *out != "" {
		os.WriteFile(*out, b, 0o644)
	} else {
		os.Stdout.Write(b)
	}
}

// avalrun: E3 leg of C11 for sync/atomic.Value (llgo's own value.go). A Load must return nil (nothing stored yet)
// or exactly one of the values passed to Store/Swap/CompareAndSwap - never a mixture of two stores or a
// half-finished first store; Swap/CompareAndSwap results must be consistent with one total order of the writes.
package main

import (
	"encoding/json"
	"flag"
	"fmt"
	"hash/fnv"
	"math/rand"
	"os"
	"unsafe"

	"schedharness/aval"
	"schedharness/vs"
)

type T struct{ A, B int }

type Failure struct {
	Class  string   `json:"class"`
	Detail string   `json:"detail"`
	Seed   int64    `json:"seed"`
	Kind   string   `json:"kind"`
	Trace  []int32  `json:"trace"`
	Log    []string `json:"log"`
	Sys    bool     `json:"sys,omitempty"`
	Bound  int      `json:"bound,omitempty"`
}

type result struct {
	fails []Failure
	s     *vs.Sched
	log   []string
	ops   int
}

func run(seed int64, trace []int32) *result {
	r := rand.New(rand.NewSource(seed*1000003 + 41))
	res := &result{}
	var s *vs.Sched
	if vs.SysBound >= 0 {
		s = vs.NewSystematic(trace, vs.SysBound, 0)
	} else if trace != nil {
		s = vs.NewReplay(trace)
	} else {
		s = vs.New(seed*7919 + 13)
	}
	switch r.Intn(3) {
	case 1:
		s.SetPCT(1+r.Intn(3), 60)
	case 2:
		s.Strat = vs.RoundRobin
	}
	if vs.SysBound >= 0 {
		s.Strat, s.Spurious = vs.Systematic, false
	}
	vs.S = s
	res.s = s
	if vs.SysBound >= 0 {
		s.MaxSteps = 1200 // value.go spins while another first store is in progress; without pre-emption budget left the spinner keeps the processor: inconclusive run
	}
	nw := 1 + r.Intn(2)
	nr := vs.Cap(1+r.Intn(3), 2)
	nops := vs.Cap(1+r.Intn(3), 2)
	ptrMode := r.Intn(2) == 0 // store *T (pointer-shaped) or T (boxed value)
	var v aval.Value
	stored := map[int]bool{} // ids of values whose store has started
	fail := func(class, format string, a ...interface{}) {
		if len(res.fails) < 3 {
			res.fails = append(res.fails, Failure{Class: class, Detail: fmt.Sprintf(format, a...), Seed: seed, Kind: "aval"})
		}
	}
	logf := func(format string, a ...interface{}) {
		res.log = append(res.log, fmt.Sprintf("%d: ", s.Steps)+fmt.Sprintf(format, a...))
	}
	// check validates a loaded value WITHOUT formatting it first (a torn interface may hold a nil data word)
	check := func(who string, got any) string {
		if got == nil {
			return "nil"
		}
		w := (*[2]unsafe.Pointer)(unsafe.Pointer(&got))
		if w[1] == nil {
			fail("value-torn", "%s: Load returned a non-nil interface whose data word is nil - a value nobody stored (half-finished first store)", who)
			return "TORN(type set, data nil)"
		}
		var t *T
		switch x := got.(type) {
		case *T:
			t = x
		case T:
			t = &x
		default:
			fail("value-foreign-type", "%s: Load returned a value of a type that was never stored", who)
			return "FOREIGN"
		}
		if t.B != -t.A || !stored[t.A] {
			fail("value-torn", "%s: Load returned {%d,%d}, which is not a value whose store had started", who, t.A, t.B)
		}
		return fmt.Sprintf("{%d,%d}", t.A, t.B)
	}
	next := 0
	for w := 0; w < nw; w++ {
		w := w
		s.Go(func(th *vs.T) {
			for k := 0; k < nops; k++ {
				res.ops++
				next++
				id := next
				stored[id] = true
				var val any = T{id, -id}
				if ptrMode {
					val = &T{id, -id}
				}
				switch r.Intn(3) {
				case 0:
					logf("W%d Store(%d)", w, id)
					v.Store(val)
				case 1:
					logf("W%d Swap(%d)", w, id)
					old := v.Swap(val)
					check(fmt.Sprintf("W%d Swap", w), old)
				default:
					logf("W%d CompareAndSwap(nil,%d)", w, id)
					v.CompareAndSwap(nil, val)
				}
			}
		})
	}
	for rd := 0; rd < nr; rd++ {
		rd := rd
		s.Go(func(th *vs.T) {
			for k := 0; k < nops+1; k++ {
				res.ops++
				got := v.Load()
				logf("R%d Load -> %s", rd, check(fmt.Sprintf("R%d", rd), got))
			}
		})
	}
	s.Run()
	if s.Stuck {
		fail("value-stuck", "threads remain blocked/spinning in atomic.Value operations: %s", s.Describe())
	}
	return res
}

type Report struct {
	Runs         int            `json:"runs"`
	Distinct     int            `json:"distinct_schedules"`
	Ops          int            `json:"operations"`
	Steps        int            `json:"scheduler_steps"`
	StepLimit    int            `json:"step_limit_inconclusive"`
	Stuck        int            `json:"quiescent_allowed"`
	ByKind       map[string]int `json:"runs_by_kind"`
	Sites        map[string]int `json:"yield_sites"`
	ClassCounts  map[string]int `json:"failure_class_counts"`
	Failures     []Failure      `json:"failures"`
	Sample       []string       `json:"sample_log"`
	SysWorkloads int            `json:"sys_workloads"`
	SysComplete  int            `json:"sys_workloads_enumerated_completely"`
	SysTruncated int            `json:"sys_workloads_truncated"`
	SysDiverged  int            `json:"sys_diverged_runs"`
	SysMaxSched  int            `json:"sys_max_schedules_of_one_workload"`
}

func main() {
	from := flag.Int64("from", 0, "first seed")
	n := flag.Int64("n", 1000, "number of runs")
	out := flag.String("out", "", "report file")
	replay := flag.String("replay", "", "failure file to replay")
	sysb := flag.Int("sys", -1, "systematic leg: enumerate EVERY schedule with at most this many pre-emptions for each (small) workload")
	maxruns := flag.Int("maxruns", 20000, "systematic leg: cap on schedules per workload")
	flag.Parse()
	if *replay != "" {
		b, _ := os.ReadFile(*replay)
		var f Failure
		json.Unmarshal(b, &f)
		if f.Sys {
			vs.SysBound = f.Bound
		}
		res := run(f.Seed, f.Trace)
		for _, l := range res.log {
			fmt.Println(l)
		}
		hit := false
		for _, x := range res.fails {
			fmt.Printf("FINDING %s: %s\n", x.Class, x.Detail)
			hit = hit || x.Class == f.Class
		}
		if hit {
			fmt.Println("REPLAY: violation reproduced")
			os.Exit(1)
		}
		fmt.Println("REPLAY: recorded class not reproduced")
		os.Exit(0)
	}
	vs.SysBound = *sysb
	rep := Report{ByKind: map[string]int{}, Sites: map[string]int{}, ClassCounts: map[string]int{}}
	seen := map[uint64]bool{}
	var seed int64
	account := func(res *result) {
		rep.Runs++
		rep.ByKind["atomic.Value"]++
		rep.Ops += res.ops
		rep.Steps += res.s.Steps
		h := fnv.New64a()
		fmt.Fprint(h, res.log)
		for _, d := range res.s.Trace {
			h.Write([]byte{byte(d), byte(d >> 8)})
		}
		seen[h.Sum64()] = true
		for k, v := range res.s.Sites {
			rep.Sites[k] += v
		}
		if res.s.StepLim {
			rep.StepLimit++
			return
		}
		if rep.Sample == nil && len(res.log) > 5 && len(res.fails) == 0 {
			rep.Sample = res.log
		}
		cls := map[string]bool{}
		for _, f := range res.fails {
			if cls[f.Class] {
				continue
			}
			cls[f.Class] = true
			rep.ClassCounts[f.Class]++
			if rep.ClassCounts[f.Class] <= 3 {
				f.Trace = res.s.Trace
				f.Log = res.log
				f.Sys, f.Bound = vs.SysBound >= 0, vs.SysBound
				rep.Failures = append(rep.Failures, f)
			}
		}
	}
	for seed = *from; seed < *from+*n; seed++ {
		one := func(tr []int32) *result { return run(seed, tr) }
		if vs.SysBound < 0 {
			account(one(nil))
			continue
		}
		rep.SysWorkloads++
		runs := 0
		full := vs.SysBound
		// iterative bounding: every schedule with <= 1 pre-emption first (always completes), then the full bound up to the cap
	bounds:
		for _, b := range []int{1, full} {
			if b > full || (b == full && full == 1 && runs > 0) {
				continue
			}
			vs.SysBound = b
			var prefix []int32
			for {
				res := one(prefix)
				runs++
				if res.s.Diverged {
					rep.SysDiverged++
				}
				account(res)
				prefix = res.s.NextPrefix()
				if prefix == nil {
					if b == full {
						rep.SysComplete++
					}
					break
				}
				if runs >= *maxruns {
					rep.SysTruncated++
					break bounds
				}
			}
		}
		vs.SysBound = full
		if runs > rep.SysMaxSched {
			rep.SysMaxSched = runs
		}
	}
	rep.Distinct = len(seen)
	b, _ := json.MarshalIndent(rep, "", " ")
	if *out != "" {
		os.WriteFile(*out, b, 0o644)
	} else {
		os.Stdout.Write(b)
	}
}

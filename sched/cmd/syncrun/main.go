// syncrun: E3 composition leg of C11. Go's own sync sources (Mutex, RWMutex, WaitGroup, Once, Cond -
// the files llgo compiles unchanged) run on top of the REAL sema_llgo.go under the controllable
// scheduler; sync/atomic operations, mutex/cond primitives underneath are scheduling points.
//
//	X1 Mutex: never two holders; X2 RWMutex: a writer excludes readers and writers
//	X3 at quiescence nobody is blocked in Lock/RLock of a lock that nobody holds (admission)
//	W1 WaitGroup.Wait returns only when Adds completed - Dones called <= 0
//	O1 Once: body runs exactly once, Do returns only after the body finished
//	C1 Cond.Wait returns only if some Signal/Broadcast had not yet returned when the Wait was called
//	   or was called later (i.e. not "woken by nobody")
package main

import (
	"encoding/json"
	"flag"
	"fmt"
	"hash/fnv"
	"math/rand"
	"os"

	"schedharness/gsync"
	"schedharness/rtl"
	"schedharness/vs"
)

type Failure struct {
	Class  string   `json:"class"`
	Detail string   `json:"detail"`
	Seed   int64    `json:"seed"`
	Kind   string   `json:"kind"`
	Trace  []int32  `json:"trace"`
	Log    []string `json:"log"`
	Sys    bool     `json:"sys,omitempty"` // systematic schedule: Trace is a decision prefix under pre-emption bound Bound
	Bound  int      `json:"bound,omitempty"`
}

type result struct {
	fails []Failure
	s     *vs.Sched
	log   []string
	ops   int
	kind  string
}

func (res *result) fail(seed int64, class, format string, a ...interface{}) {
	if len(res.fails) < 4 {
		res.fails = append(res.fails, Failure{Class: class, Detail: fmt.Sprintf(format, a...), Seed: seed, Kind: res.kind})
	}
}

func (res *result) logf(format string, a ...interface{}) {
	res.log = append(res.log, fmt.Sprintf("%d: ", res.s.Steps)+fmt.Sprintf(format, a...))
}

func mkSched(seed int64, r *rand.Rand, trace []int32, size int) *vs.Sched {
	var s *vs.Sched
	if vs.SysBound >= 0 {
		s = vs.NewSystematic(trace, vs.SysBound, 0)
	} else if trace != nil {
		s = vs.NewReplay(trace)
	} else {
		s = vs.New(seed*7919 + 11)
	}
	strat := r.Intn(3)
	d := 1 + r.Intn(3)
	s.Spurious = r.Intn(3) == 0
	switch strat {
	case 1:
		s.SetPCT(d, 60*size)
	case 2:
		s.Strat = vs.RoundRobin
	}
	s.MaxSteps = 60000
	if vs.SysBound >= 0 {
		s.Strat, s.Spurious = vs.Systematic, false
	}
	vs.S = s
	rtl.VReset()
	return s
}

func runMutex(seed int64, trace []int32) *result {
	r := rand.New(rand.NewSource(seed*1000003 + 21))
	res := &result{kind: "mutex"}
	nth := vs.Cap(2+r.Intn(4), 3)
	nops := vs.Cap(1+r.Intn(4), 2)
	s := mkSched(seed, r, trace, nth*nops)
	res.s = s
	var mu gsync.Mutex
	holders := 0
	waitingLock := make([]bool, nth)
	for t := 0; t < nth; t++ {
		t := t
		try := r.Intn(4) == 0
		s.Go(func(th *vs.T) {
			for i := 0; i < nops; i++ {
				res.ops++
				th.Pend = "Lock"
				if try && i%2 == 1 {
					if !mu.TryLock() {
						res.logf("T%d TryLock -> false", t)
						continue
					}
				} else {
					waitingLock[t] = true
					mu.Lock()
					waitingLock[t] = false
				}
				holders++
				res.logf("T%d locked (holders=%d)", t, holders)
				if holders != 1 {
					res.fail(seed, "mutex-two-holders", "T%d acquired the mutex while %d other holder(s) were inside", t, holders-1)
				}
				vs.Yield()
				vs.Yield()
				holders--
				th.Pend = "Unlock"
				mu.Unlock()
				res.logf("T%d unlocked", t)
				th.Pend = ""
			}
		})
	}
	s.Run()
	if s.Stuck {
		for t := range waitingLock {
			if waitingLock[t] && holders == 0 {
				res.fail(seed, "mutex-waiter-not-admitted", "T%d is blocked in Lock, nobody holds the mutex (state word %v) and nothing else can run", t, mu.VLocked())
			}
		}
	}
	return res
}

func runRW(seed int64, trace []int32) *result {
	r := rand.New(rand.NewSource(seed*1000003 + 23))
	res := &result{kind: "rwmutex"}
	nth := vs.Cap(2+r.Intn(4), 3)
	nops := vs.Cap(1+r.Intn(4), 2)
	s := mkSched(seed, r, trace, nth*nops)
	res.s = s
	var rw gsync.RWMutex
	readers, writers := 0, 0
	waiting := make([]string, nth)
	type op struct{ write bool }
	prog := make([][]op, nth)
	for t := range prog {
		for i := 0; i < nops; i++ {
			prog[t] = append(prog[t], op{r.Intn(3) == 0})
		}
	}
	for t := 0; t < nth; t++ {
		t := t
		s.Go(func(th *vs.T) {
			for _, o := range prog[t] {
				res.ops++
				if o.write {
					th.Pend = "Lock"
					waiting[t] = "Lock"
					rw.Lock()
					waiting[t] = ""
					writers++
					res.logf("T%d write-locked (r=%d w=%d)", t, readers, writers)
					if writers != 1 || readers != 0 {
						res.fail(seed, "rwmutex-writer-not-exclusive", "T%d holds the write lock with %d readers and %d writers inside", t, readers, writers)
					}
					vs.Yield()
					vs.Yield()
					writers--
					rw.Unlock()
					res.logf("T%d write-unlocked", t)
				} else {
					th.Pend = "RLock"
					waiting[t] = "RLock"
					rw.RLock()
					waiting[t] = ""
					readers++
					res.logf("T%d read-locked (r=%d w=%d)", t, readers, writers)
					if writers != 0 {
						res.fail(seed, "rwmutex-reader-with-writer", "T%d holds a read lock while a writer is inside", t)
					}
					vs.Yield()
					readers--
					rw.RUnlock()
					res.logf("T%d read-unlocked", t)
				}
				th.Pend = ""
			}
		})
	}
	s.Run()
	if s.Stuck && readers == 0 && writers == 0 {
		for t, w := range waiting {
			if w != "" {
				res.fail(seed, "rwmutex-waiter-not-admitted", "T%d is blocked in %s although nobody holds the lock and nothing else can run", t, w)
			}
		}
	}
	return res
}

func runWG(seed int64, trace []int32) *result {
	r := rand.New(rand.NewSource(seed*1000003 + 25))
	res := &result{kind: "waitgroup"}
	nworkers := vs.Cap(1+r.Intn(4), 2)
	nwaiters := 1 + r.Intn(2)
	s := mkSched(seed, r, trace, nworkers+nwaiters)
	res.s = s
	var wg gsync.WaitGroup
	addsDone, donesCalled, donesRet := 0, 0, 0
	wg.Add(nworkers) // before the threads start (as the WaitGroup contract demands)
	addsDone = nworkers
	waiting := make([]bool, nwaiters)
	for w := 0; w < nworkers; w++ {
		w := w
		s.Go(func(th *vs.T) {
			res.ops++
			for k := r.Intn(3); k > 0; k-- {
				vs.Yield()
			}
			donesCalled++
			res.logf("worker %d Done call", w)
			wg.Done()
			donesRet++
			res.logf("worker %d Done ret", w)
		})
	}
	for w := 0; w < nwaiters; w++ {
		w := w
		s.Go(func(th *vs.T) {
			res.ops++
			th.Pend = "Wait"
			waiting[w] = true
			res.logf("waiter %d Wait call", w)
			wg.Wait()
			waiting[w] = false
			res.logf("waiter %d Wait ret (adds=%d dones called=%d)", w, addsDone, donesCalled)
			if addsDone-donesCalled > 0 {
				res.fail(seed, "waitgroup-early-return", "Wait returned while the counter was still >= %d (adds %d, Done calls started %d)", addsDone-donesCalled, addsDone, donesCalled)
			}
			th.Pend = ""
		})
	}
	s.Run()
	if s.Stuck && donesRet == addsDone {
		for w := range waiting {
			if waiting[w] {
				res.fail(seed, "waitgroup-waiter-not-released", "waiter %d is blocked in Wait although all %d Done calls have returned", w, donesRet)
			}
		}
	}
	return res
}

func runOnce(seed int64, trace []int32) *result {
	r := rand.New(rand.NewSource(seed*1000003 + 27))
	res := &result{kind: "once"}
	nth := vs.Cap(2+r.Intn(4), 3)
	s := mkSched(seed, r, trace, nth)
	res.s = s
	var once gsync.Once
	started, finished := 0, 0
	for t := 0; t < nth; t++ {
		t := t
		s.Go(func(th *vs.T) {
			res.ops++
			th.Pend = "Do"
			once.Do(func() {
				started++
				res.logf("T%d runs the body", t)
				vs.Yield()
				vs.Yield()
				vs.Yield()
				finished++
			})
			res.logf("T%d Do ret (started=%d finished=%d)", t, started, finished)
			if finished != 1 {
				res.fail(seed, "once-do-returned-early", "Do returned on T%d while the body had finished %d times", t, finished)
			}
			th.Pend = ""
		})
	}
	s.Run()
	if started > 1 {
		res.fail(seed, "once-body-ran-twice", "the Once body ran %d times", started)
	}
	if s.Stuck {
		res.fail(seed, "once-stuck", "threads remain blocked in Once.Do: %s", s.Describe())
	}
	return res
}

func runCond(seed int64, trace []int32) *result {
	r := rand.New(rand.NewSource(seed*1000003 + 29))
	res := &result{kind: "cond"}
	nw := vs.Cap(1+r.Intn(4), 2)
	nsig := r.Intn(nw + 2)
	bcast := r.Intn(3) == 0
	s := mkSched(seed, r, trace, nw+nsig)
	res.s = s
	var mu gsync.Mutex
	c := gsync.NewCond(&mu)
	type iv struct{ call, ret int }
	var sigs []*iv
	items := 0 // producer/consumer accounting: each signal publishes one item, each wake-up with an item consumes it
	consumed := 0
	waitingSince := make([]int, nw)
	for i := range waitingSince {
		waitingSince[i] = -1
	}
	for w := 0; w < nw; w++ {
		w := w
		s.Go(func(th *vs.T) {
			res.ops++
			mu.Lock()
			for items == 0 {
				th.Pend = "Cond.Wait"
				call := s.Steps
				waitingSince[w] = call
				res.logf("W%d Wait call", w)
				c.Wait()
				waitingSince[w] = -1
				res.logf("W%d Wait ret items=%d", w, items)
				ok := false
				for _, sg := range sigs {
					if sg.ret < 0 || sg.ret >= call {
						ok = true
					}
				}
				if !ok {
					res.fail(seed, "cond-wait-woken-by-nobody", "W%d: Cond.Wait called at step %d returned although no Signal/Broadcast was in flight or issued after it", w, call)
				}
			}
			items--
			consumed++
			mu.Unlock()
			th.Pend = ""
		})
	}
	s.Go(func(th *vs.T) {
		for k := 0; k < nsig; k++ {
			res.ops++
			for y := r.Intn(4); y > 0; y-- {
				vs.Yield()
			}
			mu.Lock()
			e := &iv{call: s.Steps, ret: -1}
			sigs = append(sigs, e)
			if bcast {
				items += nw
				res.logf("S Broadcast call")
				c.Broadcast()
			} else {
				items++
				res.logf("S Signal call")
				c.Signal()
			}
			e.ret = s.Steps
			mu.Unlock()
		}
	})
	s.Run()
	if s.Stuck {
		// every published item must have been consumed if a waiter is still asleep
		for w, since := range waitingSince {
			if since >= 0 && items > 0 {
				res.fail(seed, "cond-lost-signal", "W%d is asleep in Cond.Wait since step %d although %d published item(s) are unconsumed (a Signal woke nobody)", w, since, items)
				break
			}
		}
	}
	return res
}

type Report struct {
	Runs         int            `json:"runs"`
	Distinct     int            `json:"distinct_schedules"`
	Ops          int            `json:"operations"`
	Steps        int            `json:"scheduler_steps"`
	StepLimit    int            `json:"step_limit_inconclusive"`
	Stuck        int            `json:"quiescent_allowed"`
	ByKind       map[string]int `json:"runs_by_kind"`
	Sites        map[string]int `json:"yield_sites"`
	ClassCounts  map[string]int `json:"failure_class_counts"`
	Failures     []Failure      `json:"failures"`
	Sample       []string       `json:"sample_log"`
	SysWorkloads int            `json:"sys_workloads"`
	SysComplete  int            `json:"sys_workloads_enumerated_completely"`
	SysTruncated int            `json:"sys_workloads_truncated"`
	SysDiverged  int            `json:"sys_diverged_runs"`
	SysMaxSched  int            `json:"sys_max_schedules_of_one_workload"`
}

var kinds = []func(int64, []int32) *result{runMutex, runRW, runWG, runOnce, runCond}
var kindNames = []string{"mutex", "rwmutex", "waitgroup", "once", "cond"}

func main() {
	from := flag.Int64("from", 0, "first seed")
	n := flag.Int64("n", 1000, "number of runs")
	out := flag.String("out", "", "report file")
	replay := flag.String("replay", "", "failure file to replay")
	sysb := flag.Int("sys", -1, "systematic leg: enumerate EVERY schedule with at most this many pre-emptions for each (small) workload")
	maxruns := flag.Int("maxruns", 20000, "systematic leg: cap on schedules per workload")
	flag.Parse()
	if *replay != "" {
		b, err := os.ReadFile(*replay)
		if err != nil {
			fmt.Println(err)
			os.Exit(2)
		}
		var f Failure
		json.Unmarshal(b, &f)
		if f.Sys {
			vs.SysBound = f.Bound
		}
		for i, k := range kindNames {
			if k == f.Kind {
				res := kinds[i](f.Seed, f.Trace)
				for _, l := range res.log {
					fmt.Println(l)
				}
				hit := false
				for _, x := range res.fails {
					fmt.Printf("FINDING %s: %s\n", x.Class, x.Detail)
					hit = hit || x.Class == f.Class
				}
				if hit {
					fmt.Println("REPLAY: violation reproduced")
					os.Exit(1)
				}
			}
		}
		fmt.Println("REPLAY: recorded class not reproduced")
		os.Exit(0)
	}
	vs.SysBound = *sysb
	rep := Report{ByKind: map[string]int{}, Sites: map[string]int{}, ClassCounts: map[string]int{}}
	seen := map[uint64]bool{}
	var seed int64
	account := func(res *result) {
		rep.Runs++
		rep.ByKind[res.kind]++
		rep.Ops += res.ops
		rep.Steps += res.s.Steps
		h := fnv.New64a()
		fmt.Fprint(h, int(seed%int64(len(kinds))), res.log)
		for _, d := range res.s.Trace {
			h.Write([]byte{byte(d), byte(d >> 8)})
		}
		seen[h.Sum64()] = true
		for k, v := range res.s.Sites {
			rep.Sites[k] += v
		}
		if res.s.StepLim {
			rep.StepLimit++
			return
		}
		if res.s.Stuck && len(res.fails) == 0 {
			rep.Stuck++
		}
		if rep.Sample == nil && len(res.log) > 8 && len(res.fails) == 0 {
			rep.Sample = res.log
		}
		cls := map[string]bool{}
		for _, f := range res.fails {
			if cls[f.Class] {
				continue
			}
			cls[f.Class] = true
			rep.ClassCounts[f.Class]++
			if rep.ClassCounts[f.Class] <= 3 {
				f.Trace = res.s.Trace
				f.Log = res.log
				f.Sys, f.Bound = vs.SysBound >= 0, vs.SysBound
				rep.Failures = append(rep.Failures, f)
			}
		}
	}
	for seed = *from; seed < *from+*n; seed++ {
		one := func(tr []int32) *result { return kinds[int(seed%int64(len(kinds)))](seed, tr) }
		if vs.SysBound < 0 {
			account(one(nil))
			continue
		}
		rep.SysWorkloads++
		runs := 0
		full := vs.SysBound
		// iterative bounding: every schedule with <= 1 pre-emption first (always completes), then the full bound up to the cap
	bounds:
		for _, b := range []int{1, full} {
			if b > full || (b == full && full == 1 && runs > 0) {
				continue
			}
			vs.SysBound = b
			var prefix []int32
			for {
				res := one(prefix)
				runs++
				if res.s.Diverged {
					rep.SysDiverged++
				}
				account(res)
				prefix = res.s.NextPrefix()
				if prefix == nil {
					if b == full {
						rep.SysComplete++
					}
					break
				}
				if runs >= *maxruns {
					rep.SysTruncated++
					break bounds
				}
			}
		}
		vs.SysBound = full
		if runs > rep.SysMaxSched {
			rep.SysMaxSched = runs
		}
	}
	rep.Distinct = len(seen)
	b, _ := json.MarshalIndent(rep, "", " ")
	if *out != "" {
		os.WriteFile(*out, b, 0o644)
	} else {
		os.Stdout.Write(b)
	}
}

// chanrun: E3 leg of C10. Drives the REAL z_chan.go (copied from the working tree at check
// time into package rt) under the controllable scheduler with generated workloads and checks
// the recorded histories:
//
//	M1 exactly-once / no phantom / no duplicate / conservation (sent = received + buffered)
//	M2 unbuffered rendezvous: recv(v) overlaps send(v); completed send => value received
//	M3 buffered channels: linearizable w.r.t. a bounded FIFO-with-close model (porcupine,
//	   nondeterministic model for operations that never returned)
//	M4 stuck-state oracle at scheduler quiescence (bounded-progress form of the liveness clause)
//	M5 capacity: 0 <= len <= cap at every scheduler step
//	M6 default / failed try only if the case was not ready throughout (conservative form)
//
// Verdicts are decided on scheduler steps, never on wall-clock time.
package main

import (
	"encoding/json"
	"flag"
	"fmt"
	"hash/fnv"
	"math/rand"
	"os"
	"sort"
	"strings"
	"time"
	"unsafe"

	"github.com/anishathalye/porcupine"

	"schedharness/rt"
	"schedharness/vs"
)

const (
	kSend = iota
	kRecv
	kClose
	kLen
	kTrySend
	kTryRecv
	kSelect
	kTrySelect
)

var kindName = []string{"send", "recv", "close", "len", "trysend", "tryrecv", "select", "tryselect"}

type Op struct {
	Kind  int   `json:"k"`
	Ch    int   `json:"ch"`
	Val   int64 `json:"v,omitempty"`
	Cases []Op  `json:"cases,omitempty"`
}

type Ev struct {
	Th, Idx   int
	O         Op
	Call, Ret int
	OK        bool  // send: accepted; recv: recvOK
	RVal      int64 // received value
	Sel       int
	TryOK     bool
	N         int
	Panic     string // run-time panic raised by the operation ("send on closed channel", ...)
	FirstPark int    // first step at which the thread was parked on a cond inside this op (-1: never)
}

type Config struct {
	Seed     int64   `json:"seed"`
	Nth      int     `json:"nth"`
	Nops     int     `json:"nops"`
	Nch      int     `json:"nch"`
	Caps     []int   `json:"caps"`
	Strat    int     `json:"strat"`
	PCTd     int     `json:"pctd"`
	Spurious bool    `json:"spurious"`
	Profile  string  `json:"profile"`
	Prog     [][]Op  `json:"prog"`
	Perm     []int   `json:"perm"` // address rank of each logical channel
	Trace    []int32 `json:"trace,omitempty"`
	Sys      bool    `json:"sys,omitempty"`   // systematic (bounded-preemption DFS) schedule: Trace is the decision prefix
	Bound    int     `json:"bound,omitempty"` // pre-emption bound
	Spur     int     `json:"spur,omitempty"`  // spurious wake-up bound
}

type Failure struct {
	Class  string   `json:"class"`
	Detail string   `json:"detail"`
	Config Config   `json:"config"`
	Events []string `json:"events"`
}

// ---------------------------------------------------------------- workload generation

func genConfig(seed int64, profile string) Config { return genConfigSized(seed, profile, false) }

// genConfigSized with small=true draws the workloads of the systematic leg: 2-3 threads x 1-3 ops (at most 6 ops in all)
// on 1-2 channels, small enough for every schedule within the pre-emption bound to be executed.
func genConfigSized(seed int64, profile string, small bool) Config {
	r := rand.New(rand.NewSource(seed*1000003 + 17))
	c := Config{Seed: seed, Profile: profile}
	big := r.Intn(12) == 0
	c.Nth = 2 + r.Intn(3)
	c.Nops = 1 + r.Intn(4)
	c.Nch = 1 + r.Intn(3)
	if big {
		c.Nth = 3 + r.Intn(6)
		c.Nops = 4 + r.Intn(17)
	}
	if small {
		c.Nth = 2 + r.Intn(2)
		c.Nops = 1 + r.Intn(3)
		if c.Nth == 3 && c.Nops == 3 {
			c.Nops = 2
		}
		c.Nch = 1 + r.Intn(2)
	}
	for i := 0; i < c.Nch; i++ {
		c.Caps = append(c.Caps, []int{0, 0, 1, 2}[r.Intn(4)])
	}
	c.Strat = r.Intn(3)
	c.PCTd = 1 + r.Intn(3)
	c.Spurious = r.Intn(3) == 0
	c.Perm = r.Perm(c.Nch)
	var next int64
	closer := make([]int, c.Nch) // thread allowed to close channel i (-1: nobody)
	for i := range closer {
		closer[i] = -1
		if r.Intn(2) == 0 {
			closer[i] = r.Intn(c.Nth)
		}
	}
	closed := make([]bool, c.Nch)
	c.Prog = make([][]Op, c.Nth)
	for t := 0; t < c.Nth; t++ {
		for i := 0; i < c.Nops; i++ {
			var o Op
			o.Ch = r.Intn(c.Nch)
			k := r.Intn(100)
			mkcase := func(ch int) Op {
				if r.Intn(2) == 0 {
					next++
					return Op{Kind: kSend, Ch: ch, Val: next}
				}
				return Op{Kind: kRecv, Ch: ch}
			}
			switch {
			case k < 28:
				o.Kind = kSend
				next++
				o.Val = next
			case k < 56:
				o.Kind = kRecv
			case k < 62:
				o.Kind = kLen
			case k < 68:
				o.Kind = kTrySend
				next++
				o.Val = next
			case k < 74:
				o.Kind = kTryRecv
			case k < 80:
				if closer[o.Ch] == t && !closed[o.Ch] {
					o.Kind = kClose
					closed[o.Ch] = true
				} else {
					o.Kind = kRecv
				}
			default:
				if profile == "noselect" {
					o.Kind = kRecv
					break
				}
				o.Kind = kSelect
				if r.Intn(3) == 0 {
					o.Kind = kTrySelect
				}
				nc := 1 + r.Intn(3)
				used := map[int]bool{}
				for j := 0; j < nc; j++ {
					ch := r.Intn(c.Nch)
					if used[ch] && r.Intn(4) != 0 {
						continue
					}
					used[ch] = true
					o.Cases = append(o.Cases, mkcase(ch))
				}
			}
			c.Prog[t] = append(c.Prog[t], o)
		}
	}
	return c
}

// ---------------------------------------------------------------- execution

type world struct {
	chans   []*rt.Chan
	caps    []int
	evs     []*Ev
	cur     []*Ev // current event per thread
	s       *vs.Sched
	capViol string
	pairs   map[string]int
}

// allocate chans so that the address rank of logical channel i is cfg.Perm[i]
// (selectSendFirst orders its probes by channel address; this makes schedules replayable)
func allocChans(cfg Config) []*rt.Chan {
	n := cfg.Nch
	// candidates[i] = n channels of logical channel i's capacity, allocated round-robin
	cand := make([][]*rt.Chan, n)
	for round := 0; round < n+1; round++ {
		for i := 0; i < n; i++ {
			cand[i] = append(cand[i], rt.NewChan(8, cfg.Caps[i]))
		}
	}
	// logical channels in order of wanted address rank; greedily pick the lowest candidate above the previous pick
	order := make([]int, n)
	for i, r := range cfg.Perm {
		order[r] = i
	}
	out := make([]*rt.Chan, n)
	var prev uintptr
	for _, i := range order {
		var best *rt.Chan
		for _, c := range cand[i] {
			a := uintptr(unsafe.Pointer(c))
			if a > prev && (best == nil || a < uintptr(unsafe.Pointer(best))) {
				best = c
			}
		}
		if best == nil {
			return nil
		}
		out[i] = best
		prev = uintptr(unsafe.Pointer(best))
	}
	return out
}

func stateTag(c *rt.Chan) string {
	tag := "unbuf"
	if c.VCap() > 0 {
		switch {
		case c.VLen() == 0:
			tag = "empty"
		case c.VLen() == c.VCap():
			tag = "full"
		default:
			tag = "part"
		}
	}
	if c.VClosed() {
		tag += "+closed"
	}
	return tag
}

func runOne(cfg Config) *world {
	var s *vs.Sched
	if cfg.Sys {
		s = vs.NewSystematic(cfg.Trace, cfg.Bound, cfg.Spur)
		cfg.Spurious, cfg.Strat = false, -1
	} else if cfg.Trace != nil {
		s = vs.NewReplay(cfg.Trace)
	} else {
		s = vs.New(cfg.Seed*7919 + 1)
	}
	s.Spurious = cfg.Spurious
	switch cfg.Strat {
	case 1:
		s.SetPCT(cfg.PCTd, 40*cfg.Nth*cfg.Nops)
	case 2:
		s.Strat = vs.RoundRobin
	}
	vs.S = s
	w := &world{s: s, caps: cfg.Caps, pairs: map[string]int{}}
	w.chans = allocChans(cfg)
	if w.chans == nil {
		return nil
	}
	w.cur = make([]*Ev, cfg.Nth)
	s.OnStep = func() {
		for i, c := range w.chans {
			if (c.VLen() < 0 || c.VLen() > c.VCap()) && w.capViol == "" {
				w.capViol = fmt.Sprintf("step %d: channel %d holds len=%d with cap=%d", s.Steps, i, c.VLen(), c.VCap())
			}
		}
		for i, t := range s.Ts {
			if i < len(w.cur) && w.cur[i] != nil && w.cur[i].Ret < 0 && w.cur[i].FirstPark < 0 && t.St == vs.BlockedCond {
				w.cur[i].FirstPark = s.Steps
			}
		}
	}
	for t := 0; t < cfg.Nth; t++ {
		t := t
		s.Go(func(th *vs.T) {
			for idx, o := range cfg.Prog[t] {
				e := &Ev{Th: t, Idx: idx, O: o, Call: s.Steps, Ret: -1, Sel: -1, FirstPark: -1}
				w.evs = append(w.evs, e)
				w.cur[t] = e
				th.Pend = fmt.Sprintf("%s@ch%d", kindName[o.Kind], o.Ch)
				if o.Kind < kSelect {
					w.pairs[kindName[o.Kind]+"/"+stateTag(w.chans[o.Ch])]++
				} else {
					for _, cs := range o.Cases {
						w.pairs[kindName[o.Kind]+"-"+kindName[cs.Kind]+"/"+stateTag(w.chans[cs.Ch])]++
					}
				}
				guard(e, func() {
					switch o.Kind {
					case kSend:
						v := o.Val
						e.OK = rt.ChanSend(w.chans[o.Ch], unsafe.Pointer(&v), 8)
					case kRecv:
						var v int64
						e.OK = rt.ChanRecv(w.chans[o.Ch], unsafe.Pointer(&v), 8)
						e.RVal = v
					case kClose:
						rt.ChanClose(w.chans[o.Ch])
						e.OK = true
					case kLen:
						e.N = rt.ChanLen(w.chans[o.Ch])
					case kTrySend:
						v := o.Val
						e.TryOK = rt.ChanTrySend(w.chans[o.Ch], unsafe.Pointer(&v), 8)
					case kTryRecv:
						var v int64
						e.OK, e.TryOK = rt.ChanTryRecv(w.chans[o.Ch], unsafe.Pointer(&v), 8)
						e.RVal = v
					case kSelect, kTrySelect:
						ops := make([]rt.ChanOp, len(o.Cases))
						vals := make([]int64, len(o.Cases))
						for i, cs := range o.Cases {
							vals[i] = cs.Val
							ops[i] = rt.ChanOp{C: w.chans[cs.Ch], Val: unsafe.Pointer(&vals[i]), Size: 8, Send: cs.Kind == kSend}
						}
						if o.Kind == kSelect {
							e.Sel, e.OK = rt.Select(ops...)
							e.TryOK = true
						} else {
							e.Sel, e.OK, e.TryOK = rt.TrySelect(ops...)
						}
						if e.TryOK && e.Sel >= 0 && e.Sel < len(vals) {
							e.RVal = vals[e.Sel]
						}
					}
				})
				if e.Panic != "" {
					// Go-mandated panic instead of a false result (z_chan.go after the C03 repair): the operation
					// completed without effect; for the monitors this is the same observation as ok=false / no case.
					e.OK, e.TryOK, e.Sel = false, false, -1
				}
				e.Ret = s.Steps
				th.Pend = ""
			}
			w.cur[t] = nil
		})
	}
	s.Run()
	return w
}

// guard turns a run-time panic of the channel code into an observation; scheduler assertions ("vs: ...") stay fatal.
func guard(e *Ev, f func()) {
	defer func() {
		if r := recover(); r != nil {
			msg := fmt.Sprint(r)
			if strings.HasPrefix(msg, "vs:") {
				panic(r)
			}
			e.Panic = msg
		}
	}()
	f()
}

// ---------------------------------------------------------------- flattening to channel-level operations

type cop struct {
	ev      *Ev
	kind    int // kSend kRecv kClose kLen kTrySend kTryRecv
	ch      int
	val     int64 // value sent
	call    int
	ret     int // -1 pending
	ok      bool
	tryOK   bool
	rval    int64
	n       int
	pending bool
	inSel   bool // a case of a blocking select (pending: all cases pending; completed: the chosen one)
	failTry bool // try op that failed / default taken for this case
}

func flatten(evs []*Ev) []cop {
	var out []cop
	for _, e := range evs {
		base := cop{ev: e, call: e.Call, ret: e.Ret, pending: e.Ret < 0}
		switch e.O.Kind {
		case kSend:
			c := base
			c.kind, c.ch, c.val, c.ok = kSend, e.O.Ch, e.O.Val, e.OK
			out = append(out, c)
		case kRecv:
			c := base
			c.kind, c.ch, c.ok, c.rval = kRecv, e.O.Ch, e.OK, e.RVal
			out = append(out, c)
		case kClose:
			c := base
			c.kind, c.ch = kClose, e.O.Ch
			out = append(out, c)
		case kLen:
			c := base
			c.kind, c.ch, c.n = kLen, e.O.Ch, e.N
			out = append(out, c)
		case kTrySend:
			c := base
			c.kind, c.ch, c.val, c.tryOK = kTrySend, e.O.Ch, e.O.Val, e.TryOK
			c.failTry = !e.TryOK && !c.pending
			out = append(out, c)
		case kTryRecv:
			c := base
			c.kind, c.ch, c.ok, c.tryOK, c.rval = kTryRecv, e.O.Ch, e.OK, e.TryOK, e.RVal
			c.failTry = !e.TryOK && !c.pending
			out = append(out, c)
		case kSelect, kTrySelect:
			blocking := e.O.Kind == kSelect
			if e.Panic != "" {
				continue // no channel-level effect; legality of the panic is checked separately
			}
			if e.Ret < 0 {
				for _, cs := range e.O.Cases {
					c := base
					c.inSel = true
					c.ch = cs.Ch
					if cs.Kind == kSend {
						c.kind, c.val = kSend, cs.Val
						if !blocking {
							c.kind = kTrySend
						}
					} else {
						c.kind = kRecv
						if !blocking {
							c.kind = kTryRecv
						}
					}
					out = append(out, c)
				}
				continue
			}
			if e.TryOK && e.Sel >= 0 && e.Sel < len(e.O.Cases) {
				cs := e.O.Cases[e.Sel]
				c := base
				c.inSel = true
				c.ch = cs.Ch
				if cs.Kind == kSend {
					c.kind, c.val, c.ok, c.tryOK = kSend, cs.Val, true, true
				} else {
					c.kind, c.ok, c.tryOK, c.rval = kRecv, e.OK, true, e.RVal
				}
				out = append(out, c)
			} else if !blocking {
				for _, cs := range e.O.Cases { // default taken: every case failed
					c := base
					c.inSel = true
					c.ch = cs.Ch
					c.failTry = true
					if cs.Kind == kSend {
						c.kind, c.val = kTrySend, cs.Val
					} else {
						c.kind = kTryRecv
					}
					out = append(out, c)
				}
			}
		}
	}
	return out
}

// ---------------------------------------------------------------- porcupine model for buffered channels

type bIn struct {
	kind    int
	val     int64
	cap     int
	pending bool
}
type bOut struct {
	ok, tryOK bool
	rval      int64
	n         int
}

func qlen(q string) int {
	if q == "" {
		return 0
	}
	return strings.Count(q, ",") + 1
}

func bufModel() porcupine.Model {
	nd := porcupine.NondeterministicModel{
		Init: func() []interface{} { return []interface{}{"|o"} },
		Step: func(st, in, out interface{}) []interface{} {
			s := st.(string)
			i := in.(bIn)
			o := out.(bOut)
			bar := strings.IndexByte(s, '|')
			q, closed := s[:bar], s[bar+1:] == "c"
			mk := func(q string, closed bool) string {
				if closed {
					return q + "|c"
				}
				return q + "|o"
			}
			push := func() string {
				if q == "" {
					return mk(fmt.Sprint(i.val), closed)
				}
				return mk(q+","+fmt.Sprint(i.val), closed)
			}
			head := func() (int64, string) {
				var h int64
				rest := ""
				if c := strings.IndexByte(q, ','); c >= 0 {
					fmt.Sscan(q[:c], &h)
					rest = q[c+1:]
				} else {
					fmt.Sscan(q, &h)
				}
				return h, rest
			}
			switch i.kind {
			case kSend:
				if i.pending {
					r := []interface{}{s}
					if !closed && qlen(q) < i.cap {
						r = append(r, push())
					}
					return r
				}
				if o.ok {
					if !closed && qlen(q) < i.cap {
						return []interface{}{push()}
					}
					return nil
				}
				if closed { // llgo reports "send on closed channel" through a false result
					return []interface{}{s}
				}
				return nil
			case kTrySend:
				if o.tryOK {
					if !closed && qlen(q) < i.cap {
						return []interface{}{push()}
					}
					return nil
				}
				if closed || qlen(q) == i.cap {
					return []interface{}{s}
				}
				return nil
			case kRecv, kTryRecv:
				if i.kind == kTryRecv && !o.tryOK {
					if qlen(q) == 0 && !closed {
						return []interface{}{s}
					}
					return nil
				}
				if o.ok {
					if qlen(q) == 0 {
						return nil
					}
					h, rest := head()
					if h != o.rval {
						return nil
					}
					return []interface{}{mk(rest, closed)}
				}
				if qlen(q) == 0 && closed {
					return []interface{}{s}
				}
				return nil
			case kClose:
				if i.pending {
					return []interface{}{s, mk(q, true)}
				}
				return []interface{}{mk(q, true)}
			case kLen:
				if qlen(q) == o.n {
					return []interface{}{s}
				}
				return nil
			}
			return nil
		},
		Equal: func(a, b interface{}) bool { return a.(string) == b.(string) },
		DescribeOperation: func(in, out interface{}) string {
			return fmt.Sprintf("%s(%d) -> %+v", kindName[in.(bIn).kind], in.(bIn).val, out)
		},
	}
	return nd.ToModel()
}

var pStats struct{ checked, unknown, ops int }

func checkBuffered(ch int, capacity int, ops []cop, closedAtEnd bool, finalBuf []int64, received map[int64]bool, maxT int) string {
	var hist []porcupine.Operation
	for _, c := range ops {
		in := bIn{kind: c.kind, val: c.val, cap: capacity, pending: c.pending}
		out := bOut{ok: c.ok, tryOK: c.tryOK, rval: c.rval, n: c.n}
		ret := int64(c.ret)
		if c.pending {
			ret = int64(maxT + 1)
			switch c.kind {
			case kSend, kClose:
				// may or may not have taken effect: nondeterministic step
			default:
				continue // a pending receive / try / len has produced nothing observable
			}
			if c.kind == kTrySend {
				continue
			}
		}
		hist = append(hist, porcupine.Operation{ClientId: c.ev.Th, Input: in, Output: out, Call: int64(c.call), Return: ret})
	}
	if len(hist) == 0 {
		return ""
	}
	pStats.checked++
	pStats.ops += len(hist)
	res := porcupine.CheckOperationsTimeout(bufModel(), hist, 10*time.Second)
	switch res {
	case porcupine.Unknown:
		pStats.unknown++
		return ""
	case porcupine.Illegal:
		var sb strings.Builder
		for _, h := range hist {
			fmt.Fprintf(&sb, "[%d,%d] T%d %s(%d)->%+v; ", h.Call, h.Return, h.ClientId, kindName[h.Input.(bIn).kind], h.Input.(bIn).val, h.Output)
		}
		return fmt.Sprintf("channel %d (cap %d): history is not linearizable w.r.t. the bounded FIFO-with-close model: %s", ch, capacity, sb.String())
	}
	return ""
}

// ---------------------------------------------------------------- the monitors

type finding struct{ class, detail string }

func check(cfg Config, w *world) []finding {
	var fs []finding
	add := func(class, format string, a ...interface{}) {
		fs = append(fs, finding{class, fmt.Sprintf(format, a...)})
	}
	s := w.s
	if s.StepLim {
		return nil // inconclusive, counted by the caller
	}
	ops := flatten(w.evs)
	maxT := s.Steps
	nch := len(w.caps)
	if w.capViol != "" {
		add("capacity", "%s", w.capViol)
	}
	// ---- M1 exactly once
	sentBy := map[int64]*cop{}
	for i := range ops {
		c := &ops[i]
		if c.kind == kSend || c.kind == kTrySend {
			sentBy[c.val] = c
		}
	}
	recvCount := map[int64]int{}
	received := map[int64]bool{}
	for i := range ops {
		c := &ops[i]
		if (c.kind == kRecv || c.kind == kTryRecv) && !c.pending && c.ok && (c.kind == kRecv || c.tryOK) {
			recvCount[c.rval]++
			received[c.rval] = true
			sc, ok := sentBy[c.rval]
			if !ok {
				add("phantom", "value %d received on channel %d but never sent", c.rval, c.ch)
			} else if sc.ch != c.ch {
				add("cross-channel", "value %d sent on channel %d but received on channel %d", c.rval, sc.ch, c.ch)
			}
		}
	}
	for v, n := range recvCount {
		if n > 1 {
			add("duplicate", "value %d received %d times", v, n)
		}
	}
	for ch := 0; ch < nch; ch++ {
		var mine []cop
		for _, c := range ops {
			if c.ch == ch {
				mine = append(mine, c)
			}
		}
		closedAtEnd := w.chans[ch].VClosed()
		if w.caps[ch] > 0 {
			// conservation: effective sends = received + still buffered
			buf := w.chans[ch].VBuf()
			inbuf := map[int64]bool{}
			for _, v := range buf {
				inbuf[v] = true
				if received[v] {
					add("duplicate", "channel %d: value %d was received and is still in the buffer", ch, v)
				}
				if _, ok := sentBy[v]; !ok {
					add("phantom", "channel %d: buffer holds %d which was never sent", ch, v)
				}
			}
			for _, c := range mine {
				if (c.kind == kSend && !c.pending && c.ok) || (c.kind == kTrySend && !c.pending && c.tryOK) {
					if !received[c.val] && !inbuf[c.val] {
						add("lost-value", "channel %d (cap %d): completed send of %d was neither received nor is it in the buffer", ch, w.caps[ch], c.val)
					}
				}
				if c.kind == kSend && c.inSel && !c.pending {
					continue
				}
			}
			if msg := checkBuffered(ch, w.caps[ch], mine, closedAtEnd, buf, received, maxT); msg != "" {
				add("not-linearizable", "%s", msg)
			}
			continue
		}
		// ---- M2 unbuffered
		var closeCall = -1
		for _, c := range mine {
			if c.kind == kClose && (closeCall < 0 || c.call < closeCall) {
				closeCall = c.call
			}
		}
		for _, c := range mine {
			switch c.kind {
			case kRecv, kTryRecv:
				if c.pending || (c.kind == kTryRecv && !c.tryOK) {
					continue
				}
				if c.ok {
					sc := sentBy[c.rval]
					if sc == nil || sc.ch != ch {
						continue // reported above
					}
					sret := sc.ret
					if sc.pending {
						sret = maxT + 1
					}
					if sc.call > c.ret || c.call > sret {
						add("no-rendezvous", "channel %d: recv of %d during [%d,%d] does not overlap its send [%d,%d]", ch, c.rval, c.call, c.ret, sc.call, sret)
					}
					if !sc.pending && ((sc.kind == kSend && !sc.ok) || (sc.kind == kTrySend && !sc.tryOK)) {
						add("recv-of-failed-send", "channel %d: value %d was received although its send reported failure", ch, c.rval)
					}
				} else if closeCall < 0 || closeCall > c.ret {
					add("recv-false-without-close", "channel %d: receive returned ok=false during [%d,%d] but no close was called by then", ch, c.call, c.ret)
				}
			case kSend, kTrySend:
				if c.pending {
					continue
				}
				succeeded := (c.kind == kSend && c.ok) || (c.kind == kTrySend && c.tryOK)
				if succeeded && !received[c.val] {
					// who could have taken it? a receiver that is still asleep
					cls := "unbuf-send-completed-value-never-received"
					add(cls, "channel %d: send of %d completed at step %d but no receive returned it (stuck=%v)", ch, c.val, c.ret, s.Stuck)
				}
				if c.kind == kSend && !c.ok && (closeCall < 0 || closeCall > c.ret) {
					add("send-false-without-close", "channel %d: blocking send of %d returned false during [%d,%d] but no close was called by then", ch, c.val, c.call, c.ret)
				}
			case kLen:
				if !c.pending && c.n != 0 {
					add("len-unbuffered", "channel %d: len() = %d on an unbuffered channel", ch, c.n)
				}
			}
		}
	}
	// ---- a run-time panic is legal only for a send whose channel was closed by then
	for _, e := range w.evs {
		if e.Panic == "" {
			continue
		}
		legal := false
		var chs []int
		switch e.O.Kind {
		case kSend, kTrySend:
			chs = []int{e.O.Ch}
		case kSelect, kTrySelect:
			for _, cs := range e.O.Cases {
				if cs.Kind == kSend {
					chs = append(chs, cs.Ch)
				}
			}
		}
		if strings.Contains(e.Panic, "send on closed channel") {
			for _, ch := range chs {
				for _, x := range ops {
					if x.ch == ch && x.kind == kClose && x.call <= e.Ret {
						legal = true
					}
				}
			}
		}
		if !legal {
			add("unexpected-panic", "T%d#%d %s panicked with %q although no send case of it was on a channel closed by then", e.Th, e.Idx, kindName[e.O.Kind], e.Panic)
		}
	}
	// ---- M6 failed try / default while a plain counterpart was parked throughout (unbuffered)
	for i := range ops {
		c := &ops[i]
		if !c.failTry || w.caps[c.ch] != 0 {
			continue
		}
		closeCall := -1
		for _, x := range ops {
			if x.ch == c.ch && x.kind == kClose && (closeCall < 0 || x.call < closeCall) {
				closeCall = x.call
			}
		}
		if closeCall >= 0 && closeCall <= c.ret {
			continue // closed channels have their own rules (C03)
		}
		for j := range ops {
			x := &ops[j]
			if x.ch != c.ch || x.ev.Th == c.ev.Th || x.inSel {
				continue
			}
			want := kSend
			if c.kind == kTrySend {
				want = kRecv
			}
			if x.kind != want || x.ev.FirstPark < 0 || x.ev.FirstPark > c.call {
				continue
			}
			// still unmatched when the try returned?
			if x.pending {
				// pending forever and parked since before the try started
				if want == kSend && received[x.val] {
					continue
				}
				add("default-while-ready", "channel %d: %s by T%d failed during [%d,%d] although T%d had been parked in a blocking %s since step %d and never completed", c.ch, kindName[c.kind], c.ev.Th, c.call, c.ret, x.ev.Th, kindName[x.kind], x.ev.FirstPark)
			}
		}
	}
	// ---- M4 stuck-state oracle
	if s.Stuck {
		type pend struct {
			th    int
			cases []cop
			sel   bool
		}
		byTh := map[int]*pend{}
		for _, c := range ops {
			if !c.pending {
				continue
			}
			p := byTh[c.ev.Th]
			if p == nil {
				p = &pend{th: c.ev.Th}
				byTh[c.ev.Th] = p
			}
			p.cases = append(p.cases, c)
			p.sel = p.sel || c.inSel
		}
		var ths []int
		for t := range byTh {
			ths = append(ths, t)
		}
		sort.Ints(ths)
		hasPend := func(ch, kind, notTh int) (bool, bool) { // (exists, viaSelect)
			found, viaSel := false, true
			for _, t := range ths {
				if t == notTh {
					continue
				}
				for _, c := range byTh[t].cases {
					if c.ch == ch && (c.kind == kind) {
						found = true
						if !c.inSel {
							viaSel = false
						}
					}
				}
			}
			return found, found && viaSel
		}
		// where is each pending select parked? inside an unbuffered receive it has committed to
		// (channel cond) or in its own selectOp wait
		parkedInRecv := map[int]bool{}
		anyInRecv := false
		for _, t := range ths {
			if !byTh[t].sel {
				continue
			}
			for i, c := range w.chans {
				if w.caps[i] == 0 && c.VCond() != nil && s.Ts[t].On() == c.VCond() {
					parkedInRecv[t] = true
					anyInRecv = true
				}
			}
		}
		for _, t := range ths {
			p := byTh[t]
			for _, c := range p.cases {
				ch := w.chans[c.ch]
				capn := w.caps[c.ch]
				who := "plain"
				if p.sel {
					who = "select"
					if parkedInRecv[t] {
						who = "select(parked-in-unbuf-recv)"
					} else if anyInRecv {
						who = "select(peer-parked-in-unbuf-recv)"
					}
				} else if anyInRecv {
					who = "plain(peer-select-parked-in-unbuf-recv)"
				}
				switch c.kind {
				case kRecv:
					if ch.VClosed() {
						add("stuck:"+who+"-recv-on-closed", "T%d blocked in %s recv on closed channel %d (cap %d)", t, who, c.ch, capn)
					} else if capn > 0 && ch.VLen() > 0 {
						add("stuck:"+who+"-recv-nonempty", "T%d blocked in %s recv on channel %d holding %d values", t, who, c.ch, ch.VLen())
					} else if capn == 0 {
						if ok, viaSel := hasPend(c.ch, kSend, t); ok {
							peer := "plain"
							if viaSel {
								peer = "select"
							}
							if p.sel && viaSel && !parkedInRecv[t] {
								// does the receiving select itself have a send case? (llgo then refuses select-only senders)
								hasSend := false
								for _, x := range p.cases {
									if x.kind == kSend {
										hasSend = true
									}
								}
								if hasSend {
									peer += "-send/recv-select-has-send-case"
								} else {
									peer += "-send/recv-select-recv-only"
								}
								add("stuck:unbuf-"+who+"-recv-vs-"+peer, "T%d blocked in %s recv and another thread blocked in select send on unbuffered channel %d", t, who, c.ch)
								continue
							}
							add("stuck:unbuf-"+who+"-recv-vs-"+peer+"-send", "T%d blocked in %s recv and another thread blocked in %s send on unbuffered channel %d", t, who, peer, c.ch)
						}
					}
				case kSend:
					if ch.VClosed() {
						// Go panics here; whether llgo raises that panic is property C03's business, and a
						// send on a closed channel can never "complete", so this is not a C10 stuck state.
					} else if capn > 0 && ch.VLen() < capn {
						add("stuck:"+who+"-send-room", "T%d blocked in %s send on channel %d with %d/%d used", t, who, c.ch, ch.VLen(), capn)
					}
				}
			}
		}
	}
	return fs
}

func evLog(w *world) []string {
	var out []string
	for _, e := range w.evs {
		d := ""
		switch e.O.Kind {
		case kSend:
			d = fmt.Sprintf("send(ch%d,%d) ok=%v", e.O.Ch, e.O.Val, e.OK)
		case kRecv:
			d = fmt.Sprintf("recv(ch%d) -> %d ok=%v", e.O.Ch, e.RVal, e.OK)
		case kClose:
			d = fmt.Sprintf("close(ch%d)", e.O.Ch)
		case kLen:
			d = fmt.Sprintf("len(ch%d) -> %d", e.O.Ch, e.N)
		case kTrySend:
			d = fmt.Sprintf("trysend(ch%d,%d) -> %v", e.O.Ch, e.O.Val, e.TryOK)
		case kTryRecv:
			d = fmt.Sprintf("tryrecv(ch%d) -> %d recvOK=%v tryOK=%v", e.O.Ch, e.RVal, e.OK, e.TryOK)
		default:
			var cs []string
			for _, c := range e.O.Cases {
				if c.Kind == kSend {
					cs = append(cs, fmt.Sprintf("ch%d<-%d", c.Ch, c.Val))
				} else {
					cs = append(cs, fmt.Sprintf("<-ch%d", c.Ch))
				}
			}
			d = fmt.Sprintf("%s{%s} -> sel=%d recvOK=%v tryOK=%v val=%d", kindName[e.O.Kind], strings.Join(cs, " | "), e.Sel, e.OK, e.TryOK, e.RVal)
		}
		ret := fmt.Sprint(e.Ret)
		if e.Ret < 0 {
			ret = "PENDING"
		}
		out = append(out, fmt.Sprintf("T%d#%d [%d,%s] %s", e.Th, e.Idx, e.Call, ret, d))
	}
	return out
}

type Report struct {
	Runs          int            `json:"runs"`
	Distinct      int            `json:"distinct_schedules"`
	DistinctProgs int            `json:"distinct_workloads"`
	StuckLegit    int            `json:"quiescent_deadlocks_allowed_by_model"`
	StepLimit     int            `json:"step_limit_inconclusive"`
	AllocSkipped  int            `json:"address_order_unreachable"`
	Events        int            `json:"events"`
	Steps         int            `json:"scheduler_steps"`
	Pairs         map[string]int `json:"op_state_pairs"`
	Sites         map[string]int `json:"yield_sites"`
	PorcChecked   int            `json:"porcupine_histories"`
	PorcOps       int            `json:"porcupine_operations"`
	PorcUnknown   int            `json:"porcupine_timeouts"`
	ClassCounts   map[string]int `json:"failure_class_counts"`
	Failures      []Failure      `json:"failures"`
	Sample        []string       `json:"sample_history"`
	SysWorkloads  int            `json:"sys_workloads"`
	SysComplete   int            `json:"sys_workloads_enumerated_completely"`
	SysTruncated  int            `json:"sys_workloads_truncated"`
	SysDiverged   int            `json:"sys_diverged_runs"`
	SysMaxSched   int            `json:"sys_max_schedules_of_one_workload"`
}

func main() {
	from := flag.Int64("from", 0, "first workload seed")
	n := flag.Int64("n", 1000, "number of workloads")
	profile := flag.String("profile", "full", "full | noselect")
	out := flag.String("out", "", "report file")
	replay := flag.String("replay", "", "replay a failure file (JSON Failure)")
	sys := flag.Int("sys", -1, "systematic leg: enumerate EVERY schedule with at most this many pre-emptions for each (small) workload")
	spur := flag.Int("spur", 0, "systematic leg: spurious wake-up bound")
	maxruns := flag.Int("maxruns", 40000, "systematic leg: cap on schedules per workload (beyond it the workload counts as truncated)")
	flag.Parse()

	if *replay != "" {
		b, err := os.ReadFile(*replay)
		if err != nil {
			fmt.Println(err)
			os.Exit(2)
		}
		var f Failure
		if err := json.Unmarshal(b, &f); err != nil {
			fmt.Println(err)
			os.Exit(2)
		}
		w := runOne(f.Config)
		if w == nil {
			fmt.Println("REPLAY: could not reproduce the channel address order")
			os.Exit(2)
		}
		for _, l := range evLog(w) {
			fmt.Println(l)
		}
		fs := check(f.Config, w)
		fmt.Printf("replay diverged from recorded decisions: %v; stuck=%v\n", w.s.Diverged, w.s.Stuck)
		hit := false
		for _, x := range fs {
			fmt.Printf("FINDING %s: %s\n", x.class, x.detail)
			if x.class == f.Class {
				hit = true
			}
		}
		if hit {
			fmt.Println("REPLAY: violation reproduced")
			os.Exit(1)
		}
		fmt.Println("REPLAY: recorded class not reproduced")
		os.Exit(0)
	}

	rep := Report{Pairs: map[string]int{}, Sites: map[string]int{}, ClassCounts: map[string]int{}}
	sched := map[uint64]bool{}
	progs := map[uint64]bool{}
	account := func(cfg Config, w *world) {
		rep.Runs++
		rep.Events += len(w.evs)
		rep.Steps += w.s.Steps
		h := fnv.New64a()
		for _, d := range w.s.Trace {
			h.Write([]byte{byte(d), byte(d >> 8)})
		}
		pb, _ := json.Marshal(cfg.Prog)
		h2 := fnv.New64a()
		h2.Write(pb)
		fmt.Fprint(h2, cfg.Caps)
		progs[h2.Sum64()] = true
		h.Write(pb)
		sched[h.Sum64()] = true
		for k, v := range w.pairs {
			rep.Pairs[k] += v
		}
		for k, v := range w.s.Sites {
			rep.Sites[k] += v
		}
		if w.s.StepLim {
			rep.StepLimit++
			return
		}
		fs := check(cfg, w)
		if len(fs) == 0 && w.s.Stuck {
			rep.StuckLegit++
		}
		if rep.Sample == nil && len(w.evs) >= 6 && len(fs) == 0 {
			rep.Sample = evLog(w)
		}
		seen := map[string]bool{}
		for _, x := range fs {
			if seen[x.class] {
				continue
			}
			seen[x.class] = true
			rep.ClassCounts[x.class]++
			if rep.ClassCounts[x.class] <= 3 {
				c := cfg
				c.Trace = w.s.Trace
				rep.Failures = append(rep.Failures, Failure{Class: x.class, Detail: x.detail, Config: c, Events: evLog(w)})
			}
		}
	}
	for seed := *from; seed < *from+*n; seed++ {
		if *sys >= 0 {
			cfg := genConfigSized(seed, *profile, true)
			cfg.Sys, cfg.Bound, cfg.Spur = true, *sys, *spur
			rep.SysWorkloads++
			runs := 0
			// iterative bounding: every schedule with <= 1 pre-emption first (always completes), then the full bound up to the cap
		bounds:
			for _, b := range []int{1, *sys} {
				if b > *sys || (b == *sys && *sys == 1 && runs > 0) {
					continue
				}
				cfg.Bound = b
				var prefix []int32
				for {
					cfg.Trace = prefix
					w := runOne(cfg)
					if w == nil {
						rep.AllocSkipped++
						break
					}
					runs++
					if w.s.Diverged {
						rep.SysDiverged++
					}
					account(cfg, w)
					prefix = w.s.NextPrefix()
					if prefix == nil {
						if b == *sys {
							rep.SysComplete++
						}
						break
					}
					if runs >= *maxruns {
						rep.SysTruncated++
						break bounds
					}
				}
			}
			if runs > rep.SysMaxSched {
				rep.SysMaxSched = runs
			}
			continue
		}
		cfg := genConfig(seed, *profile)
		w := runOne(cfg)
		if w == nil {
			rep.AllocSkipped++
			continue
		}
		account(cfg, w)
	}
	rep.Distinct = len(sched)
	rep.DistinctProgs = len(progs)
	rep.PorcChecked, rep.PorcOps, rep.PorcUnknown = pStats.checked, pStats.ops, pStats.unknown
	b, _ := json.MarshalIndent(rep, "", " ")
	if *out != "" {
		os.WriteFile(*out, b, 0o644)
	} else {
		os.Stdout.Write(b)
	}
}

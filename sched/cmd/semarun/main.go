// semarun: E3 leg of C11. The REAL sema_llgo.go (semaphores keyed by address, notify list) under the
// controllable scheduler, atomics as yield points.
//
//	S1 conservation: returned acquires <= initial + releases called (every step);
//	   final/quiescent word value = initial + releases returned - acquires returned
//	S2 mutual exclusion when a semaphore of initial count 1 is used as a lock
//	S3 stuck-state oracle: a blocked acquirer while the count is > 0 (lost wake-up)
//	N1 notifyListWait(t) returns only when notify > t (ticket arithmetic modulo 2^32)
//	N2 notify <= wait at every step
//	N3 stuck-state oracle: a blocked notifyListWait(t) although notify > t
package main

import (
	"encoding/json"
	"flag"
	"fmt"
	"hash/fnv"
	"math/rand"
	"os"
	"sync/atomic"

	"schedharness/rtl"
	"schedharness/vs"
)

type Failure struct {
	Class  string   `json:"class"`
	Detail string   `json:"detail"`
	Seed   int64    `json:"seed"`
	Kind   string   `json:"kind"`
	Trace  []int32  `json:"trace"`
	Log    []string `json:"log"`
	Sys    bool     `json:"sys,omitempty"` // systematic schedule: Trace is a decision prefix under pre-emption bound Bound
	Bound  int      `json:"bound,omitempty"`
}

type result struct {
	fails []Failure
	s     *vs.Sched
	log   []string
	ops   int
	kind  string
}

func mkSched(seed int64, r *rand.Rand, trace []int32, size int) *vs.Sched {
	var s *vs.Sched
	if vs.SysBound >= 0 {
		s = vs.NewSystematic(trace, vs.SysBound, 0)
	} else if trace != nil {
		s = vs.NewReplay(trace)
	} else {
		s = vs.New(seed*7919 + 3)
	}
	strat := r.Intn(3)
	d := 1 + r.Intn(3)
	s.Spurious = r.Intn(3) == 0
	switch strat {
	case 1:
		s.SetPCT(d, 30*size)
	case 2:
		s.Strat = vs.RoundRobin
	}
	if vs.SysBound >= 0 {
		s.Strat, s.Spurious = vs.Systematic, false
	}
	vs.S = s
	return s
}

func runSema(seed int64, trace []int32) *result {
	r := rand.New(rand.NewSource(seed*1000003 + 5))
	res := &result{kind: "sema"}
	nsem := 1 + r.Intn(2)
	nth := vs.Cap(2+r.Intn(4), 3)
	nops := vs.Cap(1+r.Intn(4), 2)
	lockMode := r.Intn(3) == 0 // semaphore with initial count 1 used as a mutex
	sems := make([]uint32, nsem)
	init := make([]uint32, nsem)
	for i := range sems {
		init[i] = uint32(r.Intn(3))
		if lockMode {
			init[i] = 1
		}
		sems[i] = init[i]
	}
	type op struct {
		acq bool
		s   int
	}
	prog := make([][]op, nth)
	for t := range prog {
		for i := 0; i < nops; i++ {
			if lockMode {
				si := r.Intn(nsem)
				prog[t] = append(prog[t], op{true, si}, op{false, si})
			} else {
				prog[t] = append(prog[t], op{r.Intn(2) == 0, r.Intn(nsem)})
			}
		}
	}
	s := mkSched(seed, r, trace, nth*nops)
	res.s = s
	rtl.VReset()
	acqRet := make([]int, nsem)
	relCall := make([]int, nsem)
	relRet := make([]int, nsem)
	inside := make([]int, nsem)
	pendingAcq := make([]int, nth) // semaphore index the thread is blocked acquiring, -1 none
	for i := range pendingAcq {
		pendingAcq[i] = -1
	}
	fail := func(class, format string, a ...interface{}) {
		if len(res.fails) < 4 {
			res.fails = append(res.fails, Failure{Class: class, Detail: fmt.Sprintf(format, a...), Seed: seed, Kind: "sema"})
		}
	}
	logf := func(format string, a ...interface{}) {
		res.log = append(res.log, fmt.Sprintf("%d: ", s.Steps)+fmt.Sprintf(format, a...))
	}
	s.OnStep = func() {
		for i := range sems {
			if acqRet[i] > int(init[i])+relCall[i] {
				fail("sema-conservation", "semaphore %d: %d acquires returned with initial %d and only %d releases called", i, acqRet[i], init[i], relCall[i])
			}
		}
	}
	for t := 0; t < nth; t++ {
		t := t
		s.Go(func(th *vs.T) {
			for _, o := range prog[t] {
				res.ops++
				if o.acq {
					th.Pend = fmt.Sprintf("acquire(s%d)", o.s)
					pendingAcq[t] = o.s
					logf("T%d acquire(s%d) call word=%d", t, o.s, atomic.LoadUint32(&sems[o.s]))
					rtl.SemAcquire(&sems[o.s])
					pendingAcq[t] = -1
					acqRet[o.s]++
					logf("T%d acquire(s%d) ret word=%d", t, o.s, atomic.LoadUint32(&sems[o.s]))
					if lockMode {
						inside[o.s]++
						if inside[o.s] > 1 {
							fail("sema-mutual-exclusion", "semaphore %d (initial 1, used as a lock) admitted %d holders", o.s, inside[o.s])
						}
						vs.Yield()
						vs.Yield()
					}
				} else {
					if lockMode {
						inside[o.s]--
					}
					th.Pend = fmt.Sprintf("release(s%d)", o.s)
					relCall[o.s]++
					logf("T%d release(s%d) call", t, o.s)
					rtl.SemRelease(&sems[o.s])
					relRet[o.s]++
					logf("T%d release(s%d) ret word=%d", t, o.s, atomic.LoadUint32(&sems[o.s]))
				}
				th.Pend = ""
			}
		})
	}
	s.Run()
	if s.StepLim {
		return res
	}
	for i := range sems {
		v := int(int32(atomic.LoadUint32(&sems[i])))
		want := int(init[i]) + relRet[i] - acqRet[i]
		// releases never block, so at the end (done or quiescent) every called release has returned
		if v != want {
			fail("sema-count", "semaphore %d: word=%d, expected initial %d + %d releases - %d acquires = %d", i, v, init[i], relRet[i], acqRet[i], want)
		}
	}
	if s.Stuck {
		for t, si := range pendingAcq {
			if si >= 0 && s.Ts[t].St != vs.Done && atomic.LoadUint32(&sems[si]) > 0 {
				fail("sema-lost-wakeup", "T%d is blocked in acquire(s%d) although the count is %d and nothing else can run", t, si, atomic.LoadUint32(&sems[si]))
			}
		}
	}
	return res
}

func runNotify(seed int64, trace []int32) *result {
	r := rand.New(rand.NewSource(seed*1000003 + 9))
	res := &result{kind: "notify"}
	nw := vs.Cap(1+r.Intn(4), 2) // waiters
	rounds := 1 + r.Intn(2)      // waits per waiter
	nn := 1 + r.Intn(2)          // notifier threads
	mode := r.Intn(3)            // 0 one, 1 all, 2 mixed
	ncalls := r.Intn(nw*rounds + 2)
	var l rtl.NotifyList
	if r.Intn(4) == 0 {
		// start near the wrap-around of the ticket counter
		base := uint32(0xfffffffe)
		*(*uint32)(ptrWait(&l)) = base
		*(*uint32)(ptrNotify(&l)) = base
	}
	s := mkSched(seed, r, trace, nw*rounds+nn*ncalls)
	res.s = s
	rtl.VReset()
	fail := func(class, format string, a ...interface{}) {
		if len(res.fails) < 4 {
			res.fails = append(res.fails, Failure{Class: class, Detail: fmt.Sprintf(format, a...), Seed: seed, Kind: "notify"})
		}
	}
	logf := func(format string, a ...interface{}) {
		res.log = append(res.log, fmt.Sprintf("%d: ", s.Steps)+fmt.Sprintf(format, a...))
	}
	s.OnStep = func() {
		if int32(l.VWait()-l.VNotify()) < 0 {
			fail("notify-exceeds-wait", "notify=%d ran ahead of wait=%d", l.VNotify(), l.VWait())
		}
	}
	waiting := make([]int64, nw) // ticket the waiter is blocked on, -1 none
	for i := range waiting {
		waiting[i] = -1
	}
	for w := 0; w < nw; w++ {
		w := w
		s.Go(func(th *vs.T) {
			for k := 0; k < rounds; k++ {
				res.ops++
				t := rtl.NLAdd(&l)
				logf("W%d add -> ticket %d", w, t)
				th.Pend = fmt.Sprintf("wait(%d)", t)
				waiting[w] = int64(t)
				rtl.NLWait(&l, t)
				n := l.VNotify() // read immediately, without a yield in between
				waiting[w] = -1
				logf("W%d wait(%d) ret notify=%d", w, t, n)
				if int32(n-t) <= 0 {
					fail("notify-early-return", "notifyListWait(%d) returned while notify=%d: no Signal/Broadcast covering this waiter had been issued", t, n)
				}
				th.Pend = ""
			}
		})
	}
	for n := 0; n < nn; n++ {
		n := n
		s.Go(func(th *vs.T) {
			for k := 0; k < ncalls; k++ {
				res.ops++
				all := mode == 1 || (mode == 2 && r.Intn(2) == 0)
				if all {
					logf("N%d notifyAll call wait=%d notify=%d", n, l.VWait(), l.VNotify())
					rtl.NLNotifyAll(&l)
				} else {
					logf("N%d notifyOne call wait=%d notify=%d", n, l.VWait(), l.VNotify())
					rtl.NLNotifyOne(&l)
				}
				vs.Yield()
			}
		})
	}
	s.Run()
	if s.StepLim {
		return res
	}
	if s.Stuck {
		for w, t := range waiting {
			if t >= 0 && s.Ts[w].St != vs.Done && int32(l.VNotify()-uint32(t)) > 0 {
				fail("notify-lost-wakeup", "W%d is blocked in notifyListWait(%d) although notify=%d and nothing else can run", w, t, l.VNotify())
			}
		}
	}
	return res
}

type Report struct {
	Runs         int            `json:"runs"`
	Distinct     int            `json:"distinct_schedules"`
	Ops          int            `json:"operations"`
	Steps        int            `json:"scheduler_steps"`
	StepLimit    int            `json:"step_limit_inconclusive"`
	Stuck        int            `json:"quiescent_allowed"`
	ByKind       map[string]int `json:"runs_by_kind"`
	Sites        map[string]int `json:"yield_sites"`
	ClassCounts  map[string]int `json:"failure_class_counts"`
	Failures     []Failure      `json:"failures"`
	Sample       []string       `json:"sample_log"`
	SysWorkloads int            `json:"sys_workloads"`
	SysComplete  int            `json:"sys_workloads_enumerated_completely"`
	SysTruncated int            `json:"sys_workloads_truncated"`
	SysDiverged  int            `json:"sys_diverged_runs"`
	SysMaxSched  int            `json:"sys_max_schedules_of_one_workload"`
}

func main() {
	from := flag.Int64("from", 0, "first seed")
	n := flag.Int64("n", 1000, "number of runs")
	out := flag.String("out", "", "report file")
	replay := flag.String("replay", "", "failure file to replay")
	sysb := flag.Int("sys", -1, "systematic leg: enumerate EVERY schedule with at most this many pre-emptions for each (small) workload")
	maxruns := flag.Int("maxruns", 20000, "systematic leg: cap on schedules per workload")
	flag.Parse()
	if *replay != "" {
		b, err := os.ReadFile(*replay)
		if err != nil {
			fmt.Println(err)
			os.Exit(2)
		}
		var f Failure
		json.Unmarshal(b, &f)
		if f.Sys {
			vs.SysBound = f.Bound
		}
		var res *result
		if f.Kind == "sema" {
			res = runSema(f.Seed, f.Trace)
		} else {
			res = runNotify(f.Seed, f.Trace)
		}
		for _, l := range res.log {
			fmt.Println(l)
		}
		hit := false
		for _, x := range res.fails {
			fmt.Printf("FINDING %s: %s\n", x.Class, x.Detail)
			if x.Class == f.Class {
				hit = true
			}
		}
		if hit {
			fmt.Println("REPLAY: violation reproduced")
			os.Exit(1)
		}
		fmt.Println("REPLAY: recorded class not reproduced")
		os.Exit(0)
	}
	vs.SysBound = *sysb
	rep := Report{ByKind: map[string]int{}, Sites: map[string]int{}, ClassCounts: map[string]int{}}
	seen := map[uint64]bool{}
	var seed int64
	account := func(res *result) {
		rep.Runs++
		rep.ByKind[res.kind]++
		rep.Ops += res.ops
		rep.Steps += res.s.Steps
		h := fnv.New64a()
		fmt.Fprint(h, seed%2)
		for _, d := range res.s.Trace {
			h.Write([]byte{byte(d), byte(d >> 8)})
		}
		fmt.Fprint(h, res.log)
		seen[h.Sum64()] = true
		for k, v := range res.s.Sites {
			rep.Sites[k] += v
		}
		if res.s.StepLim {
			rep.StepLimit++
			return
		}
		if res.s.Stuck && len(res.fails) == 0 {
			rep.Stuck++
		}
		if rep.Sample == nil && len(res.log) > 8 && len(res.fails) == 0 {
			rep.Sample = res.log
		}
		cls := map[string]bool{}
		for _, f := range res.fails {
			if cls[f.Class] {
				continue
			}
			cls[f.Class] = true
			rep.ClassCounts[f.Class]++
			if rep.ClassCounts[f.Class] <= 3 {
				f.Trace = res.s.Trace
				f.Log = res.log
				f.Sys, f.Bound = vs.SysBound >= 0, vs.SysBound
				rep.Failures = append(rep.Failures, f)
			}
		}
	}
	for seed = *from; seed < *from+*n; seed++ {
		one := func(tr []int32) *result {
			if seed%2 == 0 {
				return runSema(seed, tr)
			}
			return runNotify(seed, tr)
		}
		if vs.SysBound < 0 {
			account(one(nil))
			continue
		}
		rep.SysWorkloads++
		runs := 0
		full := vs.SysBound
		// iterative bounding: every schedule with <= 1 pre-emption first (always completes), then the full bound up to the cap
	bounds:
		for _, b := range []int{1, full} {
			if b > full || (b == full && full == 1 && runs > 0) {
				continue
			}
			vs.SysBound = b
			var prefix []int32
			for {
				res := one(prefix)
				runs++
				if res.s.Diverged {
					rep.SysDiverged++
				}
				account(res)
				prefix = res.s.NextPrefix()
				if prefix == nil {
					if b == full {
						rep.SysComplete++
					}
					break
				}
				if runs >= *maxruns {
					rep.SysTruncated++
					break bounds
				}
			}
		}
		vs.SysBound = full
		if runs > rep.SysMaxSched {
			rep.SysMaxSched = runs
		}
	}
	rep.Distinct = len(seen)
	b, _ := json.MarshalIndent(rep, "", " ")
	if *out != "" {
		os.WriteFile(*out, b, 0o644)
	} else {
		os.Stdout.Write(b)
	}
}

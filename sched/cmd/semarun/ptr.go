package main

import (
	"unsafe"

	"schedharness/rtl"
)

// layout of notifyList: wait uint32, notify uint32, ... (checked by sync_runtime_notifyListCheck in the real code)
func ptrWait(l *rtl.NotifyList) unsafe.Pointer   { return unsafe.Pointer(l) }
func ptrNotify(l *rtl.NotifyList) unsafe.Pointer { return unsafe.Add(unsafe.Pointer(l), 4) }

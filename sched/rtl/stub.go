// Package rtl holds a COPY of /repo/runtime/internal/lib/runtime/sema_llgo.go taken at check time
// (import paths rewritten, //go:linkname and //go:build directive lines dropped, nothing else) plus the
// symbols it needs from its package and exported shims / read-only accessors for the monitors.
package rtl

import "sync/atomic"

func throw(s string)     { panic("throw: " + s) }
func fatal(s string)     { panic("fatal: " + s) }
func runtimeNano() int64 { return 0 }

type NotifyList = notifyList

func SemAcquire(a *uint32)           { semaAcquire(a) }
func SemRelease(a *uint32)           { semaRelease(a) }
func NLAdd(l *notifyList) uint32     { return sync_runtime_notifyListAdd(l) }
func NLWait(l *notifyList, t uint32) { sync_runtime_notifyListWait(l, t) }
func NLNotifyOne(l *notifyList)      { sync_runtime_notifyListNotifyOne(l) }
func NLNotifyAll(l *notifyList)      { sync_runtime_notifyListNotifyAll(l) }

// monitor side: non-yielding reads
func (l *notifyList) VNotify() uint32 { return atomic.LoadUint32(&l.notify) }
func (l *notifyList) VWait() uint32   { return atomic.LoadUint32(&l.wait) }

// VReset forgets all per-address state between runs (addresses may be reused by the allocator).
func VReset() {
	semaMu.Init(nil)
	notifyMu.Init(nil)
	if semaMap != nil {
		semaMap = make(map[uintptr]*semaState)
	}
	if notifyMap != nil {
		notifyMap = make(map[uintptr]*notifyState)
	}
}

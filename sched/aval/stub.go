// Package aval holds a COPY of /repo/runtime/internal/lib/sync/atomic/value.go taken at check time (package clause
// rewritten, nothing else); the pointer atomics it calls are yielding stand-ins, so every atomic step of
// Value.Load/Store/Swap/CompareAndSwap is a scheduling point.
package aval

import (
	"sync/atomic"
	"unsafe"

	"schedharness/vs"
)

func LoadPointer(addr *unsafe.Pointer) unsafe.Pointer {
	vs.YieldFrom()
	return atomic.LoadPointer(addr)
}
func StorePointer(addr *unsafe.Pointer, val unsafe.Pointer) {
	vs.YieldFrom()
	atomic.StorePointer(addr, val)
}
func SwapPointer(addr *unsafe.Pointer, new unsafe.Pointer) unsafe.Pointer {
	vs.YieldFrom()
	return atomic.SwapPointer(addr, new)
}
func CompareAndSwapPointer(addr *unsafe.Pointer, old, new unsafe.Pointer) bool {
	vs.YieldFrom()
	return atomic.CompareAndSwapPointer(addr, old, new)
}
func runtime_procPin() int { return 0 }
func runtime_procUnpin()   {}

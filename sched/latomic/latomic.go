// Package latomic stands in for runtime/internal/lib/sync/atomic: each atomic is a yield point.
package latomic

import (
	"schedharness/vs"
	"sync/atomic"
)

func LoadUint32(p *uint32) uint32     { vs.YieldFrom(); return atomic.LoadUint32(p) }
func StoreUint32(p *uint32, v uint32) { vs.YieldFrom(); atomic.StoreUint32(p, v) }
func AddUint32(p *uint32, d uint32) uint32 {
	vs.YieldFrom()
	return atomic.AddUint32(p, d)
}
func CompareAndSwapUint32(p *uint32, o, n uint32) bool {
	vs.YieldFrom()
	return atomic.CompareAndSwapUint32(p, o, n)
}
func LoadInt32(p *int32) int32     { vs.YieldFrom(); return atomic.LoadInt32(p) }
func StoreInt32(p *int32, v int32) { vs.YieldFrom(); atomic.StoreInt32(p, v) }
func AddInt32(p *int32, d int32) int32 {
	vs.YieldFrom()
	return atomic.AddInt32(p, d)
}
func CompareAndSwapInt32(p *int32, o, n int32) bool {
	vs.YieldFrom()
	return atomic.CompareAndSwapInt32(p, o, n)
}

// Package psync stands in for runtime/internal/clite/pthread/sync: every primitive is routed
// through the controllable scheduler.
package psync

import "schedharness/vs"

type Mutex = vs.Mutex
type Cond = vs.Cond
type Once = vs.Once
type MutexAttr = vs.MutexAttr
type CondAttr = vs.CondAttr

// Package vs is the controllable scheduler of engine E3 together with the stand-ins for
// llgo's pthread-based primitives (Mutex, Cond, Once) and atomics.  Exactly one harness
// thread runs at a time; every primitive call is a yield point at which a seeded strategy
// picks the next thread.  POSIX freedoms are exercised: Signal wakes an ARBITRARY waiter,
// cond waits may wake spuriously.  A schedule is the list of decisions taken (replayable).
package vs

import (
	"fmt"
	"math/rand"
	"runtime"
	"sync/atomic"
)

type state int

const (
	Runnable state = iota
	BlockedMutex
	BlockedCond
	Done
)

type T struct {
	ID        int
	St        state
	wake      chan struct{}
	on        interface{}
	Pend      string // description of the pending boundary operation (set by the harness)
	BlockStep int    // step at which the thread last parked on a cond
	prio      int
}

type Strategy int

const (
	Uniform Strategy = iota
	PCT
	RoundRobin
	Systematic // bounded-preemption DFS: decisions come from a prefix, then always alternative 0
)

type Sched struct {
	R        *rand.Rand
	Ts       []*T
	cur      *T
	Trace    []int32 // every decision: chosen thread ids and victim indices
	replay   []int32
	rpos     int
	Steps    int
	MaxSteps int
	Stuck    bool // quiescent with unfinished threads
	Over     bool
	StepLim  bool // step limit hit (inconclusive)
	fin      chan struct{}
	Spurious bool
	Strat    Strategy
	pctChg   map[int]bool
	OnStep   func() // invariant hook, runs while exactly one thread is scheduled
	Sites    map[string]int
	running  int32
	Diverged bool // replay trace did not fit
	// systematic exploration (Strat == Systematic)
	prefix     []int32 // forced decisions; beyond it every decision is alternative 0
	Ns         []int32 // number of alternatives that existed at each recorded decision
	Budget     int     // remaining pre-emptions (switching away from a thread that could continue)
	SpurBudget int     // remaining spurious cond wake-ups
}

func New(seed int64) *Sched {
	return &Sched{R: rand.New(rand.NewSource(seed)), fin: make(chan struct{}), MaxSteps: 20000, Sites: map[string]int{}}
}

// NewReplay re-executes a recorded decision list.
func NewReplay(trace []int32) *Sched {
	s := New(0)
	s.replay = trace
	return s
}

// SetPCT configures priority-based scheduling with d priority change points over an
// expected schedule length of k steps.
func (s *Sched) SetPCT(d, k int) {
	s.Strat = PCT
	s.pctChg = map[int]bool{}
	for i := 0; i < d; i++ {
		s.pctChg[1+s.R.Intn(k)] = true
	}
}

// NewSystematic runs one schedule of a bounded-preemption depth-first enumeration: the first len(prefix)
// decisions are forced, every later decision takes alternative 0 (continue the running thread when it can
// continue, else the runnable thread with the lowest id; Signal wakes the oldest waiter; no spurious wake-up).
// A pre-emption costs one unit of bound, a spurious wake-up one unit of spur. NextPrefix yields the
// successor in DFS order, so iterating until it returns nil visits EVERY schedule within the bounds once.
func NewSystematic(prefix []int32, bound, spur int) *Sched {
	s := New(0)
	s.Strat = Systematic
	s.prefix = prefix
	s.Budget = bound
	s.SpurBudget = spur
	return s
}

// NextPrefix returns the decision prefix of the next schedule in DFS order (nil: enumeration complete).
func (s *Sched) NextPrefix() []int32 {
	for i := len(s.Trace) - 1; i >= 0; i-- {
		if s.Trace[i]+1 < s.Ns[i] {
			p := append([]int32(nil), s.Trace[:i]...)
			return append(p, s.Trace[i]+1)
		}
	}
	return nil
}

// SysBound >= 0 puts the harness programs into systematic mode (see NewSystematic); workload sizes are capped with Cap.
var SysBound = -1

// Cap limits a workload dimension in systematic mode (small workloads, every schedule within the bound).
func Cap(n, max int) int {
	if SysBound >= 0 && n > max {
		return max
	}
	return n
}

var S *Sched // current scheduler (one run at a time per process)

// choose returns a decision in [0,n): from the replay trace if present, else from the PRNG.
func (s *Sched) choose(n int) int {
	var v int
	if s.Strat == Systematic {
		if s.rpos < len(s.prefix) {
			v = int(s.prefix[s.rpos])
			if v >= n {
				s.Diverged = true
				v = 0
			}
		}
		s.rpos++
		s.Trace = append(s.Trace, int32(v))
		s.Ns = append(s.Ns, int32(n))
		return v
	}
	if s.replay != nil {
		if s.rpos < len(s.replay) && int(s.replay[s.rpos]) < n {
			v = int(s.replay[s.rpos])
		} else {
			s.Diverged = true
			v = 0
		}
		s.rpos++
	} else {
		v = s.R.Intn(n)
	}
	s.Trace = append(s.Trace, int32(v))
	return v
}

func (s *Sched) Go(f func(t *T)) *T {
	t := &T{ID: len(s.Ts), wake: make(chan struct{}, 1)}
	t.prio = 1000 + s.R.Intn(1000)
	s.Ts = append(s.Ts, t)
	go func() {
		<-t.wake
		if s.Over {
			return
		}
		s.enter()
		f(t)
		t.St = Done
		s.switchFrom(t)
	}()
	return t
}

func (s *Sched) enter() {
	if atomic.AddInt32(&s.running, 1) != 1 {
		panic("vs: more than one harness thread running")
	}
}

func (s *Sched) leave() { atomic.AddInt32(&s.running, -1) }

// Run starts scheduling and returns when all threads are done, stuck, or the step limit is hit.
func (s *Sched) Run() {
	S = s
	s.pick(nil)
	<-s.fin
}

func (s *Sched) Cur() *T { return s.cur }

func (s *Sched) runnable() []*T {
	var rs []*T
	for _, t := range s.Ts {
		if t.St == Runnable {
			rs = append(rs, t)
		}
	}
	return rs
}

// pick chooses the next thread. It is called by the thread giving up the processor
// (or by Run). The caller decides from the RETURN VALUE whether it continues or parks;
// it must never re-read s.cur after the wake token has been sent.
func (s *Sched) pick(from *T) *T {
	rs := s.runnable()
	if s.Strat == Systematic && s.SpurBudget > 0 {
		var cw []*T
		for _, t := range s.Ts {
			if t.St == BlockedCond {
				cw = append(cw, t)
			}
		}
		if len(cw) > 0 {
			if c := s.choose(1 + len(cw)); c > 0 {
				t := cw[c-1]
				t.on.(*Cond).remove(t)
				t.St = Runnable
				s.SpurBudget--
				rs = s.runnable()
			}
		}
	} else if s.Spurious {
		var cw []*T
		for _, t := range s.Ts {
			if t.St == BlockedCond {
				cw = append(cw, t)
			}
		}
		if len(cw) > 0 && s.choose(16) == 0 {
			t := cw[s.choose(len(cw))]
			t.on.(*Cond).remove(t)
			t.St = Runnable
			rs = s.runnable()
		}
	}
	s.Steps++
	if s.OnStep != nil {
		s.OnStep()
	}
	if len(rs) == 0 || s.Steps > s.MaxSteps {
		alldone := true
		for _, t := range s.Ts {
			if t.St != Done {
				alldone = false
			}
		}
		if len(rs) == 0 {
			s.Stuck = !alldone
		} else {
			s.StepLim = true
		}
		s.Over = true
		s.cur = nil
		if from != nil {
			s.leave()
		}
		// release every parked goroutine so that nothing leaks
		for _, t := range s.Ts {
			if t != from && t.St != Done {
				select {
				case t.wake <- struct{}{}:
				default:
				}
			}
		}
		close(s.fin)
		return nil
	}
	var n *T
	switch s.Strat {
	case Systematic:
		if from != nil && from.St == Runnable {
			n = from
			if s.Budget > 0 && len(rs) > 1 {
				order := []*T{from}
				for _, t := range rs {
					if t != from {
						order = append(order, t)
					}
				}
				c := s.choose(len(order))
				if c > 0 {
					s.Budget--
				}
				n = order[c]
			}
		} else if len(rs) == 1 {
			n = rs[0]
		} else {
			n = rs[s.choose(len(rs))]
		}
	case PCT:
		if s.pctChg[s.Steps] && from != nil {
			from.prio = s.Steps // lower than all initial priorities
		}
		if s.replay != nil {
			n = rs[s.choose(len(rs))]
		} else {
			bi := 0
			for i, t := range rs {
				if t.prio > rs[bi].prio {
					bi = i
				}
			}
			s.Trace = append(s.Trace, int32(bi))
			n = rs[bi]
		}
	case RoundRobin:
		idx := -1
		for i, t := range rs {
			if t == from {
				idx = i
			}
		}
		if s.replay != nil {
			n = rs[s.choose(len(rs))]
		} else if idx >= 0 && s.R.Intn(4) != 0 {
			s.Trace = append(s.Trace, int32(idx))
			n = rs[idx]
		} else {
			n = rs[s.choose(len(rs))]
		}
	default:
		n = rs[s.choose(len(rs))]
	}
	s.cur = n
	if n != from {
		if from != nil {
			s.leave()
		}
		n.wake <- struct{}{}
	}
	return n
}

// switchFrom: t gives up the processor (t.St already set).
func (s *Sched) switchFrom(t *T) {
	if t == nil {
		return // set-up code running before Run(): single-threaded, nothing to schedule
	}
	isDone := t.St == Done
	n := s.pick(t)
	if n == t {
		return
	}
	if isDone {
		return
	}
	if n == nil {
		// run is over while this thread is unfinished: end the goroutine
		runtime.Goexit()
	}
	<-t.wake
	if s.Over {
		runtime.Goexit()
	}
	s.enter()
}

func site(skip int) string {
	_, file, line, ok := runtime.Caller(skip)
	if !ok {
		return "?"
	}
	// keep the base name only
	for i := len(file) - 1; i >= 0; i-- {
		if file[i] == '/' {
			file = file[i+1:]
			break
		}
	}
	return fmt.Sprintf("%s:%d", file, line)
}

func yield() {
	s := S
	s.Sites[site(3)]++
	s.switchFrom(s.cur)
}

// Yield is an explicit yield point for harness code.
func Yield() { yield() }

// YieldFrom is a yield point attributed to the caller's caller (used by atomic wrappers).
func YieldFrom() {
	s := S
	s.Sites[site(3)]++
	s.switchFrom(s.cur)
}

// ---- stand-in pthread primitives ----

type MutexAttr struct{}
type CondAttr struct{}

type Mutex struct {
	locked bool
	owner  *T
}

func (m *Mutex) Init(*MutexAttr) int32 { m.locked = false; return 0 }
func (m *Mutex) Destroy()              {}
func (m *Mutex) Lock() {
	yield()
	s := S
	t := s.cur
	for m.locked {
		t.St = BlockedMutex
		t.on = m
		s.switchFrom(t)
	}
	m.locked = true
	m.owner = t
}
func (m *Mutex) TryLock() int32 {
	yield()
	if m.locked {
		return 16 // EBUSY
	}
	m.locked = true
	m.owner = S.cur
	return 0
}
func (m *Mutex) Unlock() {
	s := S
	if !m.locked {
		panic("vs: unlock of unlocked mutex")
	}
	if m.owner != s.cur {
		panic("vs: unlock by a thread that does not own the mutex")
	}
	m.release()
	yield()
}
func (m *Mutex) release() {
	m.locked = false
	m.owner = nil
	for _, t := range S.Ts {
		if t.St == BlockedMutex && t.on == m {
			t.St = Runnable
		}
	}
}

// Held reports whether the current thread owns m (for lock-discipline monitors).
func (m *Mutex) Held() bool { return m.locked && m.owner == S.cur }

type Cond struct{ ws []*T }

func (c *Cond) Init(*CondAttr) int32 { c.ws = nil; return 0 }
func (c *Cond) Destroy()             {}
func (c *Cond) remove(t *T) {
	for i, w := range c.ws {
		if w == t {
			c.ws = append(c.ws[:i:i], c.ws[i+1:]...)
			return
		}
	}
}
func (c *Cond) Waiters() int { return len(c.ws) }
func (c *Cond) Wait(m *Mutex) {
	s := S
	t := s.cur
	if !m.locked || m.owner != t {
		panic("vs: cond wait without holding the mutex")
	}
	s.Sites[site(2)]++
	// atomically release the mutex and sleep
	m.release()
	c.ws = append(c.ws, t)
	t.St = BlockedCond
	t.on = c
	t.BlockStep = s.Steps
	s.switchFrom(t)
	// re-acquire
	for m.locked {
		t.St = BlockedMutex
		t.on = m
		s.switchFrom(t)
	}
	m.locked = true
	m.owner = t
}
func (c *Cond) Signal() {
	s := S
	if len(c.ws) > 0 {
		i := s.choose(len(c.ws)) // POSIX: at least one, unspecified which
		t := c.ws[i]
		c.ws = append(c.ws[:i:i], c.ws[i+1:]...)
		t.St = Runnable
	}
	yield()
}
func (c *Cond) Broadcast() {
	for _, t := range c.ws {
		t.St = Runnable
	}
	c.ws = nil
	yield()
}

type Once struct {
	done bool
	m    Mutex
}

func (o *Once) Do(f func()) int32 {
	o.m.Lock()
	if !o.done {
		f()
		o.done = true
	}
	o.m.Unlock()
	return 0
}

// On returns the primitive the thread is parked on (nil if running).
func (t *T) On() interface{} { return t.on }

func (s *Sched) Describe() string {
	out := ""
	for _, t := range s.Ts {
		out += fmt.Sprintf("T%d st=%d pend=%q; ", t.ID, t.St, t.Pend)
	}
	return out
}

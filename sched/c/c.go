// Package c stands in for github.com/goplus/llgo/runtime/internal/clite in E3 builds.
package c

import "unsafe"

type Pointer = unsafe.Pointer
type Int = int32

type integer interface {
	~int | ~int8 | ~int16 | ~int32 | ~int64 | ~uint | ~uint8 | ~uint16 | ~uint32 | ~uint64 | ~uintptr
}

func Advance[I integer](ptr unsafe.Pointer, offset I) unsafe.Pointer {
	return unsafe.Add(ptr, int(offset))
}

func Memcpy(dst, src unsafe.Pointer, n uintptr) unsafe.Pointer {
	copy(unsafe.Slice((*byte)(dst), n), unsafe.Slice((*byte)(src), n))
	return dst
}

func Memmove(dst, src unsafe.Pointer, n uintptr) unsafe.Pointer { return Memcpy(dst, src, n) }

func Memset(s unsafe.Pointer, c Int, n uintptr) unsafe.Pointer {
	b := unsafe.Slice((*byte)(s), n)
	for i := range b {
		b[i] = byte(c)
	}
	return s
}

// Package rt holds a COPY of /repo/runtime/internal/runtime/z_chan.go taken at check time
// (import paths rewritten, nothing else) plus the few symbols it needs and read-only accessors
// for the monitors.
package rt

import "unsafe"

// maxAlloc mirrors the runtime constant used by NewChan's size check.
const maxAlloc = 1 << 48

func AllocU(size uintptr) unsafe.Pointer {
	b := make([]byte, size)
	return unsafe.Pointer(&b[0])
}

func AllocZ(size uintptr) unsafe.Pointer { return AllocU(size) }

// ---- read-only accessors (monitor side; called only while one thread is scheduled)

func (p *Chan) VLen() int     { return p.len }
func (p *Chan) VCap() int     { return p.cap }
func (p *Chan) VClosed() bool { return p.close }

// VBuf returns the buffered int64 values in queue order (eltSize 8).
func (p *Chan) VBuf() []int64 {
	var out []int64
	for i := 0; i < p.len; i++ {
		off := (p.getp + i) % p.cap
		out = append(out, *(*int64)(unsafe.Add(p.data, off*8)))
	}
	return out
}

// VCond returns the channel's own condition variable (to tell where a thread is parked).
func (p *Chan) VCond() interface{} { return &p.cond }

// Package rt (reference variant): a textbook-correct channel + select behind the same API as
// llgo's z_chan.go, used only for the NULL-HYPOTHESIS run of the E3 monitors: every monitor
// must stay silent on this implementation (DESIGN §3.6c).  Algorithm: Go's own
// (waiter queues per channel, one global lock, fire-once groups), condition variable broadcast.
package rt

import (
	"unsafe"

	sync "schedharness/psync"
)

var gmu sync.Mutex
var gcond sync.Cond

type group struct {
	fired bool
	idx   int
	ok    bool
}

type waiter struct {
	g    *group
	idx  int
	ptr  unsafe.Pointer
	size int
}

type Chan struct {
	buf    []int64
	cap    int
	closed bool
	recvq  []*waiter
	sendq  []*waiter
}

type ChanOp struct {
	C    *Chan
	Val  unsafe.Pointer
	Size int32
	Send bool
}

func NewChan(eltSize, cap int) *Chan { return &Chan{cap: cap} }

func (p *Chan) VLen() int          { return len(p.buf) }
func (p *Chan) VCap() int          { return p.cap }
func (p *Chan) VClosed() bool      { return p.closed }
func (p *Chan) VCond() interface{} { return nil }
func (p *Chan) VBuf() []int64      { return append([]int64(nil), p.buf...) }

func firstLive(q []*waiter, notg *group) *waiter {
	for _, w := range q {
		if !w.g.fired && w.g != notg {
			return w
		}
	}
	return nil
}

func fire(w *waiter, ok bool) {
	w.g.fired = true
	w.g.idx = w.idx
	w.g.ok = ok
}

func remove(q []*waiter, g *group) []*waiter {
	out := q[:0:0]
	for _, w := range q {
		if w.g != g {
			out = append(out, w)
		}
	}
	return out
}

// plain: single blocking/non-blocking channel operation (send on a closed channel reports false, as
// llgo's ChanSend does); otherwise a select, in which a send case on a closed channel never commits
// (the Go-mandated panic belongs to property C03, not to the channel semantics checked here).
func selectgo(ops []ChanOp, block, plain bool) (int, bool, bool) {
	gmu.Lock()
retry:
	g := &group{}
	for i, op := range ops {
		c := op.C
		if c == nil {
			continue
		}
		if op.Send {
			if c.closed {
				if !plain {
					continue
				}
				gmu.Unlock()
				return i, false, true // "send on closed channel": reported through ok=false
			}
			if w := firstLive(c.recvq, g); w != nil {
				*(*int64)(w.ptr) = *(*int64)(op.Val)
				fire(w, true)
				gmu.Unlock()
				gcond.Broadcast()
				return i, true, true
			}
			if len(c.buf) < c.cap {
				c.buf = append(c.buf, *(*int64)(op.Val))
				gmu.Unlock()
				gcond.Broadcast()
				return i, true, true
			}
		} else {
			if len(c.buf) > 0 {
				v := c.buf[0]
				c.buf = append([]int64(nil), c.buf[1:]...)
				if op.Val != nil {
					*(*int64)(op.Val) = v
				}
				if w := firstLive(c.sendq, g); w != nil {
					c.buf = append(c.buf, *(*int64)(w.ptr))
					fire(w, true)
				}
				gmu.Unlock()
				gcond.Broadcast()
				return i, true, true
			}
			if w := firstLive(c.sendq, g); w != nil {
				if op.Val != nil {
					*(*int64)(op.Val) = *(*int64)(w.ptr)
				}
				fire(w, true)
				gmu.Unlock()
				gcond.Broadcast()
				return i, true, true
			}
			if c.closed {
				gmu.Unlock()
				return i, false, true
			}
		}
	}
	if !block {
		gmu.Unlock()
		return len(ops), false, false
	}
	live := 0
	for i, op := range ops {
		if op.C == nil {
			continue
		}
		live++
		w := &waiter{g: g, idx: i, ptr: op.Val}
		if op.Send && op.C.closed {
			continue // can never commit (see above)
		}
		if op.Send {
			op.C.sendq = append(op.C.sendq, w)
		} else {
			op.C.recvq = append(op.C.recvq, w)
		}
	}
	for !g.fired {
		gcond.Wait(&gmu)
	}
	if !plain && ops[g.idx].Send && !g.ok {
		// select-send woken by close: this case can never commit; start over with the other cases
		for _, op := range ops {
			if op.C != nil {
				op.C.sendq = remove(op.C.sendq, g)
				op.C.recvq = remove(op.C.recvq, g)
			}
		}
		goto retry
	}
	for _, op := range ops {
		if op.C != nil {
			op.C.sendq = remove(op.C.sendq, g)
			op.C.recvq = remove(op.C.recvq, g)
		}
	}
	gmu.Unlock()
	return g.idx, g.ok, true
}

func ChanLen(p *Chan) int {
	gmu.Lock()
	n := len(p.buf)
	gmu.Unlock()
	return n
}

func ChanCap(p *Chan) int { return p.cap }

func ChanClose(p *Chan) {
	gmu.Lock()
	p.closed = true
	for _, w := range p.recvq {
		if !w.g.fired {
			fire(w, false)
		}
	}
	for _, w := range p.sendq {
		if !w.g.fired {
			fire(w, false)
		}
	}
	gmu.Unlock()
	gcond.Broadcast()
}

func ChanSend(p *Chan, v unsafe.Pointer, eltSize int) bool {
	_, ok, _ := selectgo([]ChanOp{{C: p, Val: v, Size: int32(eltSize), Send: true}}, true, true)
	return ok
}

func ChanRecv(p *Chan, v unsafe.Pointer, eltSize int) bool {
	_, ok, _ := selectgo([]ChanOp{{C: p, Val: v, Size: int32(eltSize)}}, true, true)
	return ok
}

func ChanTrySend(p *Chan, v unsafe.Pointer, eltSize int) bool {
	_, ok, try := selectgo([]ChanOp{{C: p, Val: v, Size: int32(eltSize), Send: true}}, false, true)
	return try && ok
}

func ChanTryRecv(p *Chan, v unsafe.Pointer, eltSize int) (bool, bool) {
	_, ok, try := selectgo([]ChanOp{{C: p, Val: v, Size: int32(eltSize)}}, false, true)
	return ok, try
}

func Select(ops ...ChanOp) (int, bool) {
	i, ok, _ := selectgo(ops, true, false)
	return i, ok
}

func TrySelect(ops ...ChanOp) (int, bool, bool) {
	return selectgo(ops, false, false)
}
